"""./check apalache : unbounded (inductive) arguments for the two small integer/set models, with Apalache.

Not on the verdict path of any property (the models are not bound to the code; the TLC checks are).  They say that
the id-allocation rule and the sleep-buffer ledger of the reference semantics are right for every registry / buffer,
not only those TLC reaches within its bounds.
"""
import os
import shutil
import subprocess
import tempfile

HERE = os.path.dirname(os.path.dirname(os.path.abspath(__file__)))
RUNS = [
    # (module, init, invariant, length, extra args)
    ("IdAlloc", "Init", "IndInv", 0, ["--cinit=ConstInit"]),
    ("IdAlloc", "IndInit", "IndInv", 1, ["--cinit=ConstInit"]),
    ("IdAlloc", "IndInit", "Fresh", 1, ["--cinit=ConstInit"]),
    ("SleepLedger", "Init", "IndInv", 0, []),
    ("SleepLedger", "IndInit", "IndInv", 1, []),
    ("SleepLedger", "IndInit", "WakeWritesPending", 1, []),
    ("SleepLedger", "IndInit", "ReleasedLiveIsLatest", 1, []),
]


def main():
    if not shutil.which("apalache-mc"):
        print("apalache-mc not found")
        return 2
    bad = 0
    for mod, init, inv, length, extra in RUNS:
        out = tempfile.mkdtemp(prefix="apa.")
        try:
            cmd = ["timeout", "900", "apalache-mc", "check", f"--init={init}", f"--inv={inv}", f"--length={length}",
                   f"--out-dir={out}", *extra, f"{mod}.tla"]
            res = subprocess.run(cmd, cwd=os.path.join(HERE, "spec", "apalache"), capture_output=True, text=True,
                                 check=False)
            ok = "The outcome is: NoError" in res.stdout
            print(f"{'ok  ' if ok else 'FAIL'} {mod}: {init} /\\ [Next]^{length} => {inv}")
            if not ok:
                bad += 1
                print(res.stdout[-1500:])
        finally:
            shutil.rmtree(out, ignore_errors=True)
    # the same two rules without any bound, as TLAPS proofs (spec/proofs)
    if shutil.which("tlapm"):
        for mod in ("IdAllocProof", "SleepLedgerProof", "PresRuleProof"):
            out = tempfile.mkdtemp(prefix="tlapm.")
            try:
                shutil.copy(os.path.join(HERE, "spec", "proofs", mod + ".tla"), out)
                for base in ("IdRule.tla", "Ledger.tla", "PresRule.tla"):
                    shutil.copy(os.path.join(HERE, "spec", base), out)
                res = subprocess.run(["timeout", "900", "tlapm", "--cleanfp", mod + ".tla"], cwd=out, capture_output=True,
                                     text=True, check=False)
                txt = res.stdout + res.stderr
                import re
                m = re.search(r"All (\d+) obligations proved", txt)
                print(f"{'ok  ' if m else 'FAIL'} {mod}: " + (f"all {m.group(1)} proof obligations discharged by tlapm" if m else txt[-800:]))
                bad += 0 if m else 1
            finally:
                shutil.rmtree(out, ignore_errors=True)
    else:
        print("tlapm not found: proofs skipped")
    print(f"apalache / tlapm: {bad} failed")
    return 0 if bad == 0 else 2
