"""C01 / C02: the wire codec, decided with spec/Codec.tla.

spec -> code: TLC enumerates a bounded set of messages (C01) / lines (C02), checks the codec
laws on each and prints it with the expected encoding / verdict; every printed case is run
through the real MessageSchema.dump / load and Gateway.send / listen under all five protocols.
code -> spec: random lines and messages (full Unicode payloads, mutated fields) are run through
the real codec, the recorded results are judged by TLC (CodecTrace.tla).
"""
from __future__ import annotations

import asyncio
import json
import multiprocessing
import os
import random
import re
import shutil

from marshmallow import ValidationError

from aiomysensors import Gateway
from aiomysensors.exceptions import AIOMySensorsError, InvalidMessageError
from aiomysensors.model.message import Message, MessageSchema
from aiomysensors.model.node import Node
from aiomysensors.model.protocol import get_protocol

from . import common, tlc
from .gwdriver import FakeTransport

PROTOCOLS = ["1.4", "1.5", "2.0", "2.1", "2.2"]


def cps(s: str) -> list[int]:
    return [ord(c) for c in s]


def text(cp: list[int]) -> str:
    return "".join(chr(c) for c in cp)


def _schema(proto: str) -> MessageSchema:
    sch = MessageSchema()
    sch.set_protocol(get_protocol(proto))
    return sch


def msg_result(msg) -> dict:
    try:
        return {"k": "msg", "n": int(msg.node_id), "c": int(msg.child_id), "cmd": int(msg.command),
                "ack": int(msg.ack) if not isinstance(msg.ack, bool) else -1, "t": cps(str(int(msg.message_type))),
                "p": cps(msg.payload)}
    except Exception as err:  # noqa: BLE001
        return {"k": "other", "cls": "unreadable message: " + type(err).__name__}


def real_load(proto: str, line: str) -> dict:
    try:
        sch = _schema(proto)
        first = sch.load(line)
        res = msg_result(first)
        # the caller may reuse the decoded object (e.g. to build a reply): that must not leak into later decodes
        first.payload, first.ack, first.command = "mutated-by-the-caller", 1 - int(first.ack), 0
        again = msg_result(_schema(proto).load(line))
        if again != res:
            return {"k": "other", "cls": "second decode of the same line differs: " + json.dumps(again)[:120]}
        # ... and an edited decoded message encodes like a new message with the same field values

        def enc(m):
            try:
                return sch.dump(m)
            except ValidationError:
                return "<invalid>"
        fresh = Message(first.node_id, first.child_id, first.command, first.ack, first.message_type, first.payload)
        if enc(first) != enc(fresh):
            return {"k": "other", "cls": "an edited decoded message encodes as " + repr(enc(first))[:80] + " not " + repr(enc(fresh))[:80]}
        return res
    except ValidationError:
        return {"k": "invalid"}
    except BaseException as err:  # noqa: BLE001
        return {"k": "other", "cls": type(err).__name__}


def real_dump(proto: str, m: dict) -> dict:
    try:
        msg = Message(m["n"], m["c"], m["cmd"], m["ack"], int(text(m["t"])), text(m["p"]))
        return {"k": "line", "line": cps(_schema(proto).dump(msg))}
    except ValidationError:
        return {"k": "invalid"}
    except BaseException as err:  # noqa: BLE001
        return {"k": "other", "cls": type(err).__name__}


def _gateway(proto: str, node: int | None = None, child: int | None = None) -> Gateway:
    tr = FakeTransport()
    gw = Gateway(tr)
    tr.gateway = gw
    gw.protocol_version = proto
    if node is not None:
        gw.nodes[node] = Node(node, 17, proto)
        if child is not None and child != 255:
            gw.nodes[node].add_child(child, 6)
    return gw


def real_listen(loop, proto: str, line: str, hint: dict | None) -> dict:
    node = hint["n"] if hint and hint.get("k") == "msg" else None
    child = hint["c"] if hint and hint.get("k") == "msg" else None
    gw = _gateway(proto, node, child)
    if len(line) % 4 == 1:   # a reused gateway object: the context was entered and left before
        async def cycle():
            async with gw:
                pass
        try:
            loop.run_until_complete(asyncio.wait_for(cycle(), 5))
        except BaseException as err:  # noqa: BLE001
            return {"k": "other", "cls": "context cycle: " + type(err).__name__}
    gw.transport.lines.append(line)
    gen = gw.listen()
    try:
        # bounded: a listen step that neither yields nor raises although a line is there would wait for ever
        msg = loop.run_until_complete(asyncio.wait_for(gen.__anext__(), 2))
        return msg_result(msg)
    except (asyncio.TimeoutError, TimeoutError):
        return {"k": "other", "cls": "blocked: the line was consumed without a message or an error"}
    except InvalidMessageError as err:
        # the decoder's rejection wraps the schema's ValidationError; a handler may also refuse a
        # decoded message as invalid (e.g. an unusable version payload): that line WAS accepted
        if isinstance(err.__cause__, ValidationError):
            return {"k": "invalid"}
        return {"k": "accepted"}
    except AIOMySensorsError:
        return {"k": "accepted"}  # decoded, then refused by a handler (unsupported type ...)
    except BaseException as err:  # noqa: BLE001
        return {"k": "other", "cls": type(err).__name__}
    finally:
        loop.run_until_complete(gen.aclose())


def real_send(loop, proto: str, m: dict) -> dict:
    gw = _gateway(proto)
    raw = []

    async def write(decoded_message):
        raw.append(decoded_message)

    gw.transport.write = write
    try:
        msg = Message(m["n"], m["c"], m["cmd"], m["ack"], int(text(m["t"])), text(m["p"]))
        loop.run_until_complete(asyncio.wait_for(gw.send(msg, message_buffer=False), 5))
    except InvalidMessageError:
        return {"k": "invalid"}
    except BaseException as err:  # noqa: BLE001
        return {"k": "other", "cls": type(err).__name__}
    if len(raw) != 1 or not isinstance(raw[0], str):
        return {"k": "other", "cls": f"{len(raw)} writes"}
    return {"k": "line", "line": cps(raw[0])}


# ---------------------------------------------------------------------------------------


def _tlc_cases(module: str, cfg_edit, workdir: str) -> tuple[list, dict]:
    cfg = open(os.path.join(workdir, module + ".cfg")).read()
    name = module + "_run.cfg"
    with open(os.path.join(workdir, name), "w") as fil:
        fil.write(cfg_edit(cfg))
    out = tlc.run(workdir, module, name, workers=1)
    summ = tlc.summary(out)
    if summ["violated"] or summ["error"] or not summ["distinct"]:
        common.machinery_failure(f"{module}: TLC failed or a codec law is violated in the specification itself:\n{out[-3000:]}")
    cases = []
    for line in out.splitlines():
        if line.startswith('<<"CASE"'):
            cases.append(json.loads(json.loads(line[len('<<"CASE", '):-2])))
    return cases, summ


def _run_msg_cases(chunk):
    """spec -> code for C01: (msg, expected line) through dump, load, send, listen."""
    cases, with_gateway = chunk
    loop = asyncio.new_event_loop()
    bad = []
    n = 0
    try:
        for k, cs in enumerate(cases):
            m, line = cs["msg"], cs["line"]
            want_msg = dict(m, k="msg")
            for proto in PROTOCOLS:
                n += 2
                got = real_dump(proto, m)
                if got != {"k": "line", "line": line}:
                    bad.append({"path": "dump", "proto": proto, "msg": m, "expected_line": line, "got": got})
                got = real_load(proto, text(line))
                if got != want_msg:
                    bad.append({"path": "load", "proto": proto, "line": line, "expected": want_msg, "got": got})
                if with_gateway and k % 3 == 0:
                    n += 2
                    got = real_send(loop, proto, m)
                    if got != {"k": "line", "line": line}:
                        bad.append({"path": "send", "proto": proto, "msg": m, "expected_line": line, "got": got})
                    got = real_listen(loop, proto, text(line), want_msg)
                    if got != want_msg and got != {"k": "accepted"}:
                        bad.append({"path": "listen", "proto": proto, "line": line, "expected": want_msg, "got": got})
    finally:
        loop.close()
    return n, bad


def _run_line_cases(cases):
    """spec -> code for C02: (line, expected verdict) through load and listen."""
    loop = asyncio.new_event_loop()
    bad = []
    gray = []
    n = 0
    try:
        for cs in cases:
            line, exp = text(cs["line"]), cs["expect"]
            for proto in PROTOCOLS:
                for path in ("load", "listen"):
                    n += 1
                    got = real_load(proto, line) if path == "load" else real_listen(loop, proto, line, exp)
                    if exp["k"] == "gray":
                        ok = got["k"] in ("msg", "invalid", "accepted")
                        if got["k"] == "msg":   # TLC judges whether the value it was read as is well-formed
                            gray.append({"kind": "decode", "proto": proto, "line": cs["line"], "res": got, "msg": {}})
                    elif exp["k"] == "invalid":
                        ok = got == {"k": "invalid"}
                    else:
                        ok = got == exp or (path == "listen" and got == {"k": "accepted"})
                    if not ok:
                        bad.append({"path": path, "proto": proto, "line": cs["line"], "text": line, "expected": exp, "got": got})
    finally:
        loop.close()
    return n, bad, gray


def _pool_map(fn, items, chunk):
    chunks = [items[i:i + chunk] for i in range(0, len(items), chunk)]
    ctx = multiprocessing.get_context("fork")
    with ctx.Pool(min(16, max(1, len(chunks))), initializer=common.limit_worker) as pool:
        return pool.map(fn, chunks)


# ---------------------------------------------------------------------------------------
# random cases (code -> spec)

WS = [" ", "\t", " ", " ", "　"]
ALPH = "a0;. -+eE_é٣中\U0001f600" + "".join(WS) + "\x1c\x1e\x1f\x00\x01\x7f\x00"


def rand_payload(rnd: random.Random, maxlen: int) -> str:
    n = rnd.choice([0, 1, 2, 5, rnd.randint(0, maxlen)])
    out = []
    for _ in range(n):
        r = rnd.random()
        if r < 0.5:
            out.append(rnd.choice(ALPH))
        else:
            c = rnd.choice([rnd.randint(33, 126), rnd.randint(0xA1, 0x2FF), rnd.randint(0x400, 0xD7FF), rnd.randint(0x10000, 0x10FFFF)])
            out.append(chr(c))
    s = "".join(out)
    s = "".join(ch for ch in s if not ch.isspace() or ch in "\x1c\x1d\x1e\x1f \t  　")
    return s.rstrip() if s.rstrip() == s else s.rstrip()


def rand_msg(rnd: random.Random, maxlen: int) -> dict:
    while True:
        cmd = rnd.randint(0, 4)
        t = rnd.choice([0, 1, 2, 3, 4, 6, 9, 11, 14, 17, 22, 32, 49, rnd.randint(0, 60), -rnd.randint(1, 50), 10 ** rnd.randint(9, 25)])
        n = rnd.choice([0, 1, 9, 10, 99, 100, 254, 255, rnd.randint(0, 255)])
        c = rnd.choice([0, 1, 254, 255, rnd.randint(0, 255)])
        if cmd in (3, 4) and c != 255 and not (cmd == 3 and t in (3, 4)):
            c = 255
        if c == 255 and cmd in (1, 2):
            c = rnd.randint(0, 254)
        return {"n": n, "c": c, "cmd": cmd, "ack": rnd.randint(0, 1), "t": cps(str(t)), "p": cps(rand_payload(rnd, maxlen))}


FIELD_MUT = ["", " ", "a", "?", "nan", "None", "1,0", "-1", "256", "1.0", "+1", " 1", "1 ", "007", "1_0", "99999999999999999999", "1e3", "٣", "0x1", "-", "--1", "1-"]


def rand_line(rnd: random.Random, maxlen: int) -> str:
    m = rand_msg(rnd, maxlen)
    fields = [str(m["n"]), str(m["c"]), str(m["cmd"]), str(m["ack"]), text(m["t"]), text(m["p"])]
    r = rnd.random()
    if r < 0.35:
        pass
    elif r < 0.7:
        fields[rnd.randint(0, 4)] = rnd.choice(FIELD_MUT)
    elif r < 0.8:
        fields = fields[: rnd.randint(0, 5)]
    elif r < 0.9:
        fields[rnd.randint(0, 4)] = str(rnd.choice([255, 256, 5, 2, 254, 3, 4]))
    else:
        i = rnd.randint(0, 4)
        fields[i], fields[(i + 1) % 5] = fields[(i + 1) % 5], fields[i]
    return ";".join(fields) + rnd.choice(["\n", "\n", "", "\r\n", " \n", "\t\n"])


def _run_random(job):
    seed_, n, maxlen = job
    rnd = random.Random(seed_)
    loop = asyncio.new_event_loop()
    cases = []
    try:
        for _ in range(n):
            proto = rnd.choice(PROTOCOLS)
            if rnd.random() < 0.5:
                line = rand_line(rnd, maxlen)
                res = real_load(proto, line) if rnd.random() < 0.6 else real_listen(loop, proto, line, real_load(proto, line))
                cases.append({"kind": "decode", "proto": proto, "line": cps(line), "res": res, "msg": {}})
            else:
                m = rand_msg(rnd, maxlen)
                res = real_dump(proto, m) if rnd.random() < 0.6 else real_send(loop, proto, m)
                cases.append({"kind": "encode", "proto": proto, "msg": m, "res": res, "line": []})
                if res["k"] == "line":  # and back
                    line = text(res["line"])
                    cases.append({"kind": "decode", "proto": proto, "line": res["line"], "res": real_load(proto, line), "msg": {}})
    finally:
        loop.close()
    return cases


def _validate_random(cases: list, workdir: str, shards: int) -> tuple[list[int], int]:
    import concurrent.futures

    def one(k):
        part = cases[k::shards]
        path = os.path.join(workdir, f"codec-cases-{k}.json")
        with open(path, "w") as fil:
            json.dump({"cases": part}, fil)
        out = tlc.run(workdir, "CodecTrace", "CodecTrace.cfg", workers=1, env={"TRACE_FILE": path})
        os.unlink(path)
        summ = tlc.summary(out)
        m = re.search(r'<<"DONE", (\d+)>>', out)
        if summ["error"] or summ["violated"] or not m or int(m.group(1)) != len(part):
            common.machinery_failure(f"CodecTrace failed:\n{out[-3000:]}")
        return [k + shards * (int(x) - 1) for x in re.findall(r'<<"REJECT", (\d+)>>', out)], summ["distinct"]

    with concurrent.futures.ThreadPoolExecutor(max_workers=shards) as pool:
        res = list(pool.map(one, range(shards)))
    return sorted(i for r, _ in res for i in r), sum(s for _, s in res)


# ---------------------------------------------------------------------------------------


def check(prop: str) -> int:
    common.enter_scratch()
    tier = common.tier()
    rep = common.Report(prop, tier)
    workdir = tlc.scratch()
    import shutil
    try:
        tlc.stage(workdir)
        if prop == "C01":
            plen = 2 if tier == "quick" else 3
            cases, summ = _tlc_cases("MC_codec_msgs", lambda c: c.replace("PLen = 2", f"PLen = {plen}"), workdir)
            rep.add_tlc(f"MC_codec_msgs PLen={plen}", summ, {"cases_emitted": len(cases)})
            ctx = multiprocessing.get_context("fork")
            with ctx.Pool(16, initializer=common.limit_worker) as pool:
                results = pool.map(_run_msg_cases, [(cases[i:i + 400], True) for i in range(0, len(cases), 400)])
        else:
            term = "TermQuick" if tier == "quick" else "TermAll"
            cases, summ = _tlc_cases("MC_codec_lines", lambda c: c.replace("TermQuick", term), workdir)
            rep.add_tlc(f"MC_codec_lines {term}", summ, {"cases_emitted": len(cases)})
            results = _pool_map(_run_line_cases, cases, 250)
        nexec = 0
        gray_cases = []
        for res in results:
            n, bad = res[0], res[1]
            if len(res) > 2:
                gray_cases.extend(res[2])
            nexec += n
            for b in bad:
                sig = {"path": b["path"], "got": b["got"].get("k"), "cls": b["got"].get("cls", "")}
                rep.violation(sig, {"kind": "codec-case", "case": b},
                              f"real codec disagrees with Codec.tla on an enumerated case ({b['path']}, protocol {b['proto']}): "
                              f"expected {json.dumps(b.get('expected', b.get('expected_line')))[:200]} got {json.dumps(b['got'])[:200]}"
                              f" input {json.dumps(b.get('text', b.get('msg', b.get('line'))))[:200]}")
        rep.cov["evaluations"] = nexec
        rep.sample({"source": "TLC-enumerated case", "case": cases[len(cases) // 3]})
        # random, judged by TLC
        nrand = 4000 if tier == "quick" else 40000
        maxlen = 30 if tier == "quick" else 200
        jobs = [(common.seed() * 1000 + k + (0 if prop == "C01" else 500), nrand // 16, maxlen) for k in range(16)]
        ctx = multiprocessing.get_context("fork")
        with ctx.Pool(16, initializer=common.limit_worker) as pool:
            rcases = [c for part in pool.map(_run_random, jobs) for c in part]
        rcases = gray_cases + rcases
        rejected, states = _validate_random(rcases, workdir, 8 if tier == "quick" else 16)
        rep.cov["states"] += states
        rep.cov["transitions"] += states
        rep.add_traces(len(rcases))
        rep.cov["random_cases_judged_by_tlc"] = len(rcases)
        rep.cov["distinct_nontrivial"] = len({json.dumps(c.get("line") or c.get("msg"), sort_keys=True) for c in rcases}) + len(cases)
        rep.cov["rule"] = "TLC-enumerated bounded cases (all run under 5 protocols) + seeded random cases; distinct by input"
        rep.sample({"source": "random case judged by TLC", "case": rcases[0]})
        for i in rejected:
            c = rcases[i]
            rep.violation({"path": c["kind"], "got": c["res"].get("k"), "cls": c["res"].get("cls", "")},
                          {"kind": "codec-case", "case": c},
                          f"recorded {c['kind']} result is not allowed by Codec.tla (protocol {c['proto']}): "
                          f"input {json.dumps(text(c['line']) if c['kind'] == 'decode' else c['msg'])[:200]} result {json.dumps(c['res'])[:200]}")
        rep.assumptions += ["Python's notion of whitespace (str.rstrip) and of line terminators is transcribed into Codec.tla as sets of code points",
                            "spellings Python's int() reads beyond plain decimal (padding, sign, underscores, non-ASCII digits) may be accepted or rejected (DESIGN.md 5.3)",
                            "the space of all Unicode payloads is sampled, bounded alphabets are enumerated"]
        return rep.finish()
    finally:
        shutil.rmtree(workdir, ignore_errors=True)


def replay(doc: dict) -> int:
    """Re-run the case through the real codec on the current tree; the verdict is the comparison with the
    expectation TLC computed (enumerated cases) or a fresh judgement by TLC (recorded random cases)."""
    common.enter_scratch()
    c = doc["case"]
    loop = asyncio.new_event_loop()
    work = tlc.scratch()
    try:
        tlc.stage(work)
        proto = c.get("proto", "2.2")
        if "path" in c:      # an enumerated case: expected result known
            if c["path"] in ("dump", "send"):
                got = real_dump(proto, c["msg"]) if c["path"] == "dump" else real_send(loop, proto, c["msg"])
                ok = got == {"k": "line", "line": c["expected_line"]}
            else:
                line = text(c["line"])
                exp = c["expected"]
                got = real_load(proto, line) if c["path"] == "load" else real_listen(loop, proto, line, exp)
                ok = (got["k"] in ("msg", "invalid", "accepted")) if exp["k"] == "gray" else \
                     (got == exp or (c["path"] == "listen" and got == {"k": "accepted"}) or (exp["k"] == "invalid" and got == {"k": "invalid"}))
            print(c["path"], "->", json.dumps(got)[:300], "| expected", json.dumps(c.get("expected", c.get("expected_line")))[:300])
        else:                # a recorded random case: judged by TLC again
            if c["kind"] == "decode":
                line = text(c["line"])
                res = real_load(proto, line)
                case = dict(c, res=res)
            else:
                case = dict(c, res=real_dump(proto, c["msg"]))
            print(c["kind"], "->", json.dumps(case["res"])[:300])
            rejected, _ = _validate_random([case], work, 1)
            ok = not rejected
        if not ok:
            print(f"VIOLATION property={doc.get('property')} replay=(this file)")
            return 1
        print("the real codec agrees with Codec.tla on this case")
        return 0
    finally:
        loop.close()
        shutil.rmtree(work, ignore_errors=True)
