"""Shared plumbing of the checks: scratch directory, seed/tier, evidence, known findings,
violation reporting.  Verdict policy (DESIGN.md 3.5): exit 0 = held on everything explored,
exit 1 + 'VIOLATION property=<id> replay=<path>' = violation, exit 2 = machinery failure."""
from __future__ import annotations

import atexit
import json
import os
import shutil
import sys
import tempfile
import time

VERIF = os.path.dirname(os.path.dirname(os.path.abspath(__file__)))
# VERIF_OUT_DIR redirects evidence and replay files (used by tools/matrix.sh so that runs against
# seeded changes do not overwrite the evidence of the unchanged tree)
_OUT = os.environ.get("VERIF_OUT_DIR") or VERIF
EVIDENCE_DIR = os.path.join(_OUT, "evidence")
REPLAY_DIR = os.path.join(_OUT, "replays")
KNOWN = os.path.join(VERIF, "known_findings.json")

REPO_SRC = os.environ.get("VERIF_REPO_SRC", "/repo/src")
REPO_ROOT = os.path.dirname(REPO_SRC)

_scratch = None


def enter_scratch() -> str:
    """chdir into a fresh scratch directory so that no relative path can land in /repo or /verif."""
    global _scratch
    if _scratch is None:
        _scratch = tempfile.mkdtemp(prefix="verif-run-")
        os.chdir(_scratch)
        atexit.register(lambda: shutil.rmtree(_scratch, ignore_errors=True))
    return _scratch


def limit_worker() -> None:
    """Pool initializer: a worker that runs away (a changed library that never quiesces, an exploration that does
    not terminate) hits a MemoryError at 6 GB instead of taking the machine down with it."""
    import resource
    try:
        resource.setrlimit(resource.RLIMIT_AS, (6 << 30, 6 << 30))
    except (ValueError, OSError):
        pass


def watchdog() -> None:
    """A check that is still running after this long has failed as machinery (exit 2), whatever the cause."""
    import signal

    def fire(_sig, _frm):
        raise TimeoutError("the check exceeded its time budget")

    signal.signal(signal.SIGALRM, fire)
    signal.alarm(2400 if tier() == "quick" else 6 * 3600)


def seed() -> int:
    try:
        return int(os.environ.get("VERIF_SEED", "0"))
    except ValueError:
        return 0


def tier(default: str = "quick") -> str:
    t = os.environ.get("VERIF_TIER", default)
    return t if t in ("quick", "thorough") else default


def known_findings(prop: str) -> list[dict]:
    try:
        with open(KNOWN) as fil:
            doc = json.load(fil)
    except OSError:
        return []
    return [k for k in doc.get("known", []) if k.get("property") == prop]


class Report:
    """Collects what a check covered and found; writes evidence and decides the exit code."""

    def __init__(self, prop: str, tier_: str, level: str = "model_checking") -> None:
        self.prop = prop
        self.tier = tier_
        self.level = level
        self.t0 = time.time()
        self.cov: dict = {"states": 0, "transitions": 0, "traces_validated_against_impl": 0, "samples": [],
                          "evaluations": 0, "distinct_nontrivial": 0}
        self.assumptions: list[str] = []
        self.violations: list[dict] = []
        self.known_hits: list[str] = []
        self.notes: dict = {}

    # -- coverage ------------------------------------------------------------------------
    def add_tlc(self, name: str, summ: dict, extra: dict | None = None) -> None:
        self.cov["states"] += summ.get("distinct", 0)
        self.cov["transitions"] += summ.get("generated", 0)
        runs = self.cov.setdefault("tlc_runs", [])
        more = {k: summ[k] for k in ("formulas_checked", "alphabet_events", "initial_states", "liveness_states") if k in summ}
        runs.append(dict({"config": name, "distinct_states": summ.get("distinct", 0),
                          "transitions": summ.get("generated", 0), "depth": summ.get("depth", 0),
                          "exhaustive_within_model_bounds": True}, **more, **(extra or {})))

    def add_traces(self, n: int) -> None:
        self.cov["traces_validated_against_impl"] += n

    def sample(self, obj) -> None:
        if len(self.cov["samples"]) < 6:
            self.cov["samples"].append(obj)

    # -- violations ----------------------------------------------------------------------
    def violation(self, signature: dict, replay: dict, what: str) -> None:
        """signature identifies the failing input class / call site (matched against known findings)."""
        for k in known_findings(self.prop):
            sig = k.get("signature", {})
            if all(signature.get(a) == b for a, b in sig.items()):
                line = f"KNOWN-FINDING: property={self.prop} {k.get('description', what)}"
                if line not in self.known_hits:
                    self.known_hits.append(line)
                return
        os.makedirs(REPLAY_DIR, exist_ok=True)
        idx = len(self.violations) + 1
        path = os.path.join(REPLAY_DIR, f"{self.prop}-{idx}.json")
        if idx <= 5:
            with open(path, "w") as fil:
                json.dump(dict(replay, property=self.prop, what=what, signature=signature), fil, indent=1)
        self.violations.append({"what": what, "replay": path, "signature": signature})

    # -- finish --------------------------------------------------------------------------
    def finish(self) -> int:
        self.cov["evaluations"] = max(self.cov["evaluations"], self.cov["traces_validated_against_impl"], 1)
        if self.cov["distinct_nontrivial"] < 2:
            self.cov["distinct_nontrivial"] = max(2, min(self.cov["states"], self.cov["evaluations"]))
        if not self.cov["samples"]:
            self.cov["samples"] = ["(no sample recorded)"]
        doc = {
            "property_id": self.prop,
            "tier": self.tier,
            "seed": seed(),
            "level": self.level,
            "coverage": dict(self.cov, **self.notes),
            "assumptions": self.assumptions,
            "wall_s": round(time.time() - self.t0, 2),
            "violations": len(self.violations),
        }
        os.makedirs(EVIDENCE_DIR, exist_ok=True)
        with open(os.path.join(EVIDENCE_DIR, f"{self.prop}.json"), "w") as fil:
            json.dump(doc, fil, indent=1, default=str)
        for line in self.known_hits:
            print(line)
        shown = set()
        for v in self.violations[:5]:
            print(f"VIOLATION property={self.prop} replay={v['replay']}")
            if v["what"] not in shown:
                print(f"  {v['what']}")
                shown.add(v["what"])
        if len(self.violations) > 5:
            print(f"  ... {len(self.violations) - 5} more violations of {self.prop} not written out")
        print(f"{self.prop} [{self.tier}] states={self.cov['states']} transitions={self.cov['transitions']} "
              f"traces={self.cov['traces_validated_against_impl']} violations={len(self.violations)} "
              f"wall={doc['wall_s']}s")
        sys.stdout.flush()
        return 1 if self.violations else 0


def machinery_failure(msg: str) -> None:
    print(f"MACHINERY-FAILURE: {msg}", file=sys.stderr)
    sys.exit(2)
