"""Checks decided with spec/MySensors*.tla: C03-C08, C10-C12.

Per check:  (1) TLC model-checks the focus configuration (all invariants / action
properties of MySensors.tla) and emits one history per abstract transition;
(2) every history is replayed on the real Gateway (spec -> code);  (3) seeded random
histories over a larger alphabet are executed as well;  (4) every recorded execution
is validated by TLC against the reference operators under the property's focus
(code -> spec).  A rejected real execution is a violation.
"""
from __future__ import annotations

import json
import logging
import multiprocessing
import os
import random
import re
import sys
import time

from . import common, gwdriver, suite, tlc

ID_EMBED = {0: 0, 1: 1, 2: 2, 3: 3, 4: 252, 5: 253, 6: 254, 7: 7, 255: 255}

BAD_LINES = {
    "short": ["1;2;3\n", "1;2\n", "1\n", "1;2;3;4\n", "1;255;3;0\n", "1;0;1;0;1\n"],
    "empty": ["\n", "", "   \n", ";;;;;\n"],
    "overrange": ["256;0;1;0;0;1\n", "1;256;1;0;0;1\n", "1;0;5;0;0;1\n", "1;0;1;2;0;1\n", "-1;0;1;0;0;1\n"],
    "alpha": ["a;0;1;0;0;1\n", "1;b;1;0;0;1\n", "1;0;c;0;0;1\n", "1;0;1;d;0;1\n", "1;0;1;0;e;1\n", "invalid\n",
              "1;0;\u00b2;0;0;21.5\n", "1;\u00b3;1;0;0;1\n", "1;0;1;0;\u2460;1\n"],
    "crossfield": ["1;0;3;0;0;57\n", "1;0;4;0;0;\n", "1;255;1;0;0;1\n", "1;255;2;0;0;\n"],
    "float": ["1.0;0;1;0;0;1\n", "1;0.5;1;0;0;1\n", "1;0;1;0;1e3;1\n"],
}


# one field of a well-formed line of every kind (set, req, presentations, internal types incl. log / id request /
# heartbeat / version, stream) replaced by a token that is certainly not an integer, or by a value out of range;
# swept one by one in C03 (each followed by a well-formed line) and sampled by the random histories
_SHAPES = ["1;0;1;0;0;21.5", "1;0;2;0;0;", "1;255;0;0;17;2.0", "1;0;0;0;6;desc", "0;255;3;0;9;TSF:MSG:READ", "0;255;3;0;14;Gateway startup complete.",
           "255;255;3;0;3;", "1;255;3;0;0;57", "1;255;3;0;22;1111", "1;255;3;0;32;500", "0;255;3;0;2;2.3.2", "1;255;3;0;11;sketch",
           "1;255;3;0;1;", "1;255;3;0;6;0", "1;255;4;0;0;0A0001005000D446", "1;255;3;1;13;", "0;255;0;0;18;2.3.2"]
_TOKENS = ["?", "a", "", "1.0", "0x1", "-", "1e3", "1,0", "None", "nan"]
_RANGES = {0: ["256", "-1", "1000"], 1: ["256", "-1"], 2: ["5", "-1", "9"], 3: ["2", "-1"]}
GENERATED_BAD: list[tuple[str, str]] = []      # (class, line)
for _shape in _SHAPES:
    for _i in range(5):
        for _tok in _TOKENS[(len(_shape) + _i) % 3::3]:
            _f = _shape.split(";", 5)
            _f[_i] = _tok
            GENERATED_BAD.append(("alpha", ";".join(_f) + "\n"))
        for _tok in _RANGES.get(_i, [])[:1 + (len(_shape) + _i) % 2]:
            _f = _shape.split(";", 5)
            _f[_i] = _tok
            GENERATED_BAD.append(("overrange", ";".join(_f) + "\n"))
    GENERATED_BAD.append(("short", ";".join(_shape.split(";", 5)[:5]) + "\n"))


class _Obj:
    pass


JUNK = {"str": "invalid", "none": None, "int": 42, "object": _Obj(), "dictmissing": {"node_id": 1}}

# ---------------------------------------------------------------------------------------
# TLC on a focus configuration


def run_mc(focus: str, depth: int, workdir: str) -> dict:
    cfg = f"MC_{focus}.cfg"
    path = os.path.join(workdir, cfg)
    text = open(path).read()
    text = re.sub(r"MaxDepth = \d+", f"MaxDepth = {depth}", text)
    run_cfg = f"MC_{focus}_d{depth}.cfg"
    with open(os.path.join(workdir, run_cfg), "w") as fil:
        fil.write(text)
    out = tlc.run(workdir, f"MC_{focus}", run_cfg, workers=1, args=["-coverage", "1"])
    summ = tlc.summary(out)
    if summ["violated"]:
        common.machinery_failure(f"specification {focus}: formula {summ['violated']} violated in the model itself:\n" + out[-3000:])
    if summ["error"] or not summ["generated"]:
        common.machinery_failure(f"TLC failed on {cfg}:\n{summ['error'] or out[-3000:]}")
    alpha = inits = None
    for line in out.splitlines():
        if line.startswith('<<"ALPHABET"'):
            alpha = json.loads(json.loads(line[len('<<"ALPHABET", '):-2]))
        elif line.startswith('<<"INITS"'):
            inits = json.loads(json.loads(line[len('<<"INITS", '):-2]))
    if alpha is None or inits is None:
        common.machinery_failure(f"no alphabet/inits printed by {cfg}")
    covers = sorted({tuple(h) for h in tlc.cover_lines(out)})
    used = {i for h in covers for i in h[1:]}
    never = [i for i in range(1, len(alpha) + 1) if i not in used]
    if never:
        common.machinery_failure(f"{cfg}: alphabet events never taken (vacuous): {never}")
    summ["formulas_checked"] = re.findall(r"^(?:INVARIANT|PROPERTY) (\w+)", text, re.M)
    summ["alphabet_events"] = len(alpha)
    summ["initial_states"] = len(inits)
    return {"alphabet": alpha, "inits": inits, "covers": covers, "summary": summ}


def run_sim(num: int, depth: int, seed_: int, workdir: str) -> dict:
    """tlc -simulate on the unfocused configuration MC_all: random deep behaviours; every formula is checked
    along them and each maximal behaviour is returned for replay on the real code."""
    text = open(os.path.join(workdir, "MC_all.cfg")).read()
    text = re.sub(r"MaxDepth = \d+", f"MaxDepth = {depth}", text)
    with open(os.path.join(workdir, "MC_all_sim.cfg"), "w") as fil:
        fil.write(text)
    out = tlc.run(workdir, "MC_all", "MC_all_sim.cfg", workers=1,
                  args=["-simulate", f"num={num}", "-depth", str(depth + 2), "-seed", str(seed_ + 1)])
    if re.search(r"is violated|Error:", out):
        common.machinery_failure("simulation of MC_all: a formula is violated in the model itself or TLC failed:\n" + out[-3000:])
    alpha = inits = None
    hists, prev = [], None
    for line in out.splitlines():
        if line.startswith('<<"ALPHABET"'):
            alpha = json.loads(json.loads(line[len('<<"ALPHABET", '):-2]))
        elif line.startswith('<<"INITS"'):
            inits = json.loads(json.loads(line[len('<<"INITS", '):-2]))
        else:
            m = tlc._COVER.search(line)
            if m:
                h = json.loads(m.group(1))
                if prev is not None and h[:len(prev)] != prev:
                    hists.append(tuple(prev))
                prev = h
    if prev is not None:
        hists.append(tuple(prev))
    m = re.search(r"number of states generated: (\d+)", out)
    gen = int(m.group(1)) if m else sum(len(h) for h in hists)
    return {"alphabet": alpha, "inits": inits, "covers": sorted(set(hists)),
            "summary": {"generated": gen, "distinct": gen, "depth": depth, "error": None, "violated": []}}


def _fix_pairs(x):
    return x if isinstance(x, list) else []


def concretise(focus: str, mc: dict, hist: tuple) -> tuple[dict, list]:
    init = json.loads(json.dumps(mc["inits"][hist[0] - 1]))
    emb = ID_EMBED if focus == "ids" else None
    nodes = []
    for nid, nd in _fix_pairs(init["nodes"]):
        nd["ch"] = [[c, dict(cd, vals=_fix_pairs(cd["vals"]))] for c, cd in _fix_pairs(nd["ch"])]
        nodes.append([emb[nid] if emb else nid, nd])
    init["nodes"] = nodes
    events = []
    for pos, i in enumerate(hist[1:]):
        ev = dict(mc["alphabet"][i - 1])
        if emb and ev["k"] == "recv":
            ev["n"] = emb.get(ev["n"], ev["n"])
        if ev["k"] == "recvbad":
            lines = BAD_LINES[ev["p"]]
            ev["line"] = lines[(pos + len(hist)) % len(lines)]
        elif ev["k"] == "sendjunk":
            ev["obj"] = JUNK[ev["p"]]
        if ev.get("fault") == "rel":
            ev["fault"] = f"rel:{ev.get('fk') or 1}"
        events.append(ev)
    return init, events


# ---------------------------------------------------------------------------------------
# executing histories on the real code


class _Sink(logging.Handler):
    """Formats every record (so that a broken log call shows) and drops it."""

    def emit(self, record):
        record.getMessage()


def _exec(job):
    init, events, tz = job
    if tz:
        os.environ["TZ"] = tz
        time.tzset()
    # the library's diagnostics are part of the code under test: every other history runs with the library's logger
    # at DEBUG (what its own CLI configures), the rest at the default level
    lib_logger = logging.getLogger("aiomysensors")
    if not any(isinstance(h, _Sink) for h in lib_logger.handlers):
        lib_logger.addHandler(_Sink())
        lib_logger.propagate = False
    lib_logger.setLevel(logging.DEBUG if (len(events) + len(init.get("nodes", []))) % 2 else logging.WARNING)
    try:
        tr = gwdriver.run_history(init, events)
    except BaseException as err:  # noqa: BLE001 - the harness itself failed
        return {"harness_error": f"{type(err).__name__}: {err}"}
    tr["input"] = {"init": init, "events": [{k: v for k, v in e.items() if k != "obj"} for e in events], "tz": tz}
    return tr


def execute(jobs: list) -> list:
    if not jobs:
        return []
    ctx = multiprocessing.get_context("fork")
    with ctx.Pool(min(16, max(1, len(jobs) // 50 + 1)), initializer=common.limit_worker) as pool:
        traces = pool.map(_exec, jobs, chunksize=64)
    for t in traces:
        if "harness_error" in t:
            common.machinery_failure("harness failed while driving the gateway: " + t["harness_error"])
    return traces


# ---------------------------------------------------------------------------------------
# seeded random histories over a larger alphabet

PAYLOADS = ["a", "b", "57", "0", "100", "20.5", "on;off", "é", "", " x", "1", "x y"]
VERSIONS = ["1.4", "1.5", "2.0", "2.1", "2.2", "2.2.0", "2.3.2", "2.1.1", "2.0.0", "1.5.0", "1.4.1"]


def random_history(rnd: random.Random, prop: str, length: int) -> tuple[dict, list]:
    nodes_pool = [1, 2, 3, 7, 254] if prop != "C11" else [1, 2, 3, 100, 253, 254]
    proto = rnd.choice(["1.4", "1.5", "2.0", "2.1", "2.2", "2.0", "2.2"])
    if prop in ("C07", "C08", "C10", "C12"):
        proto = rnd.choice(["2.0", "2.1", "2.2", "2.2", "2.0", "1.5"])
    ver = proto if rnd.random() < 0.85 else "none"
    if ver == "none":
        proto = "1.4"
    init_nodes = []
    for nid in rnd.sample(nodes_pool, rnd.randint(0, 3)):
        ch = []
        for cid in rnd.sample([0, 1, 2, 254], rnd.randint(0, 3)):
            vals = [[t, rnd.choice(PAYLOADS)] for t in sorted(rnd.sample([0, 1, 2, 48], rnd.randint(0, 2)))]
            ch.append([cid, {"type": rnd.choice([0, 6, 23]), "desc": rnd.choice(["", "d"]), "vals": vals}])
        init_nodes.append([nid, {"type": 17, "ver": "2.0", "bat": rnd.choice([0, 50]), "sn": "", "sv": "", "hb": 0,
                                 "sl": rnd.random() < (0.6 if prop in ("C07", "C08", "C12") else (0.4 if prop == "C03" else 0.2)),
                                 "rb": False, "ch": sorted(ch)}])
    if prop == "C11" and rnd.random() < 0.5:
        dom = rnd.sample(range(0, 256), rnd.choice([0, 1, 5, 40, 200, 250]))
        if rnd.random() < 0.3:
            dom = list(range(0, rnd.choice([10, 253, 254, 255])))
        init_nodes = [[n, {"type": 17, "ver": "2.0", "bat": 0, "sn": "", "sv": "", "hb": 0, "sl": False, "rb": False,
                           "ch": []}] for n in sorted(set(dom))]
    init = {"metric": rnd.random() < 0.5, "ver": ver, "proto": proto, "nodes": sorted(init_nodes)}
    wake_t = 32 if proto == "2.2" else 22
    maxint = {"1.4": 14, "1.5": 17, "2.0": 28, "2.1": 28, "2.2": 33}[proto]
    evs = []
    for _ in range(length):
        n = rnd.choice(nodes_pool)
        c = rnd.choice([0, 1, 2, 254])
        t = rnd.choice([0, 1, 2, 48, 19])
        p = rnd.choice(PAYLOADS)
        r = rnd.random()
        w = {"C04": (.14, .3, .5, .58, .8, .84, .9, .95), "C06": (.06, .12, .25, .4, .8, .85, .9, .97),
             "C07": (.04, .08, .12, .14, .40, .42, .95, .97), "C08": (.03, .06, .09, .1, .45, .46, .97, .98),
             "C10": (.1, .2, .4, .5, .85, .95, .97, .98), "C11": (.15, .2, .22, .24, .84, .86, .88, .97),
             "C12": (.03, .06, .08, .1, .35, .37, .95, .97), "C03": (.08, .16, .3, .38, .70, .75, .87, .9),
             "C05": (.1, .15, .2, .25, .9, .95, .97, .98)}[prop]
        if r < w[0]:
            ev = dict(k="recv", n=rnd.choice(nodes_pool + [0]), c=255, cmd=0, ack=0, t=rnd.choice([17, 18]), p=rnd.choice(VERSIONS + [""]))
        elif r < w[1]:
            ev = dict(k="recv", n=n, c=c, cmd=0, ack=0, t=rnd.choice([0, 6, 23, 39, 40, 99, -1]), p=rnd.choice(["", "d", "e", "x;y"]))
        elif r < w[2]:
            ev = dict(k="recv", n=n, c=c, cmd=1, ack=rnd.choice([0, 0, 1]), t=t, p=p)
        elif r < w[3]:
            ev = dict(k="recv", n=n, c=c, cmd=2, ack=0, t=t, p="")
        elif r < w[4]:
            if prop == "C11":
                it = rnd.choice([3, 3, 3, 0, 11])
            elif prop in ("C07", "C08", "C12"):
                it = rnd.choice([wake_t, wake_t, wake_t, 22, 32, 0, 18, 14, 2])
            elif prop == "C05":
                it = rnd.choice([2, 2, -1, -15] + list(range(0, 36)))
            else:
                it = rnd.choice([0, 1, 2, 3, 6, 9, 11, 12, 14, 21, 22, 32, 18, 16, 5, maxint, maxint + 1, wake_t, -1, -15])
            pl = p
            if it == 0:
                pl = rnd.choice(["57", "0", "100", "7.6", "99.4", "12"] + (["abc", "", "150", "-3", "nan", ("level " * 40).strip()] if prop == "C03" else []))
            elif it == 22:
                pl = rnd.choice(["1", "1111", "0", "300000", "-1"] + (["x", "", ("beat " * 50).strip()] if prop in ("C03", "C04") else []))
            elif it == 2:
                pl = rnd.choice(VERSIONS + (["garbage", "", ("no version " * 30).strip()] if prop in ("C03", "C05") else []))
            nn = 0 if it in (2, 9, 14) else (255 if it == 3 and rnd.random() < 0.7 else n)
            cc = rnd.choice([255, 255, 5]) if it == 3 else 255
            ev = dict(k="recv", n=nn, c=cc, cmd=3, ack=0, t=it, p=pl)
            if prop in ("C08", "C12", "C03") and it in (22, 32) and rnd.random() < (0.6 if prop == "C08" else 0.3):
                ev["fault"] = f"rel:{rnd.randint(1, 4)}"
        elif r < w[5]:
            ev = dict(k="recv", n=n, c=255, cmd=4, ack=0, t=rnd.choice([0, 1, 5, 6, -1]), p="")
            if prop == "C10" and rnd.random() < 0.3:
                ev = dict(k="recv", n=n, c=c, cmd=1, ack=0, t=t, p=p, fault="pres")
        elif r < w[6]:
            cmd = 1
            if prop == "C12" and rnd.random() < 0.5:
                cmd = rnd.choice([0, 2, 3, 4])
            if cmd == 1:
                ev = dict(k="send", n=n, c=c, cmd=1, ack=rnd.choice([0, 0, 1]), t=t, p=p)
            elif cmd == 0:
                ev = dict(k="send", n=n, c=rnd.choice([255, c]), cmd=0, ack=0, t=17, p="2.0")
            elif cmd == 2:
                ev = dict(k="send", n=n, c=c, cmd=2, ack=0, t=t, p="")
            elif cmd == 3:
                ev = dict(k="send", n=n, c=255, cmd=3, ack=0, t=rnd.choice([13, 18, 19, 20, 6, 1, maxint + 1]), p="")
            else:
                ev = dict(k="send", n=n, c=255, cmd=4, ack=0, t=rnd.choice([0, 1, 3]), p=p)
            if prop == "C10" and rnd.random() < 0.3:   # the application asks a node for its presentation itself
                ev = dict(k="send", n=n, c=255, cmd=3, ack=0, t=19, p="")
            ev["buf"] = rnd.random() < 0.85
        elif r < w[7]:
            ev = dict(k="reboot", n=n) if rnd.random() < (0.5 if prop == "C05" else 0.75) else dict(k="cycle")
            if prop in ("C05", "C03", "C04", "C06") and rnd.random() < 0.4:
                ev = dict(k="sibling", p=rnd.choice(["1.5.1", "2.2.0", "1.4", "2.0.0"]))
            if prop == "C11":
                ev = dict(k=rnd.choice(["snapshot", "reload", "cycle"]))
        else:
            cls = rnd.choice(sorted(BAD_LINES))
            ev = dict(k="recvbad", p=cls, line=rnd.choice(BAD_LINES[cls]))
            if rnd.random() < 0.4:
                gcls, gline = rnd.choice(GENERATED_BAD)
                ev = dict(k="recvbad", p=gcls, line=gline)
        if prop in ("C03", "C12") and ev["k"] == "send" and not ev.get("fault") and rnd.random() < 0.3:
            # the peer stops reading for an hour while the write of this send is pending, then resumes: the send completes
            # - or gives up with a library error, the line not taken (a timeout of the library's own is legitimate)
            ev["slow"] = True
        if ev["k"] == "recv" and ev.get("ack", 0) == 0 and rnd.random() < 0.12:
            ev["ack"] = 1       # a node may set the ack flag on anything it sends; it is handled all the same
        evs.append(ev)
    return init, evs


def storm_history(rnd: random.Random) -> tuple[dict, list]:
    """C08: the same command's release write fails at several consecutive wakes, then a wake succeeds."""
    proto = rnd.choice(["2.0", "2.1", "2.2"])
    wake_t = 32 if proto == "2.2" else 22
    nodes = [[n, {"type": 17, "ver": "2.0", "bat": 0, "sn": "", "sv": "", "hb": 0, "sl": True, "rb": False,
                  "ch": [[0, {"type": 6, "desc": "", "vals": []}], [1, {"type": 6, "desc": "", "vals": []}]]}] for n in (1, 2)]
    init = {"metric": True, "ver": proto, "proto": proto, "nodes": nodes}
    evs = []
    ncmd = rnd.randint(1, 3)
    for i in range(ncmd):
        evs.append(dict(k="send", n=1, c=i % 2, cmd=1, ack=0, t=i // 2, p=f"v{i}", buf=True))
    if rnd.random() < 0.5:
        evs.append(dict(k="send", n=2, c=0, cmd=1, ack=0, t=0, p="other", buf=True))
    wake = lambda n, f=None: dict(k="recv", n=n, c=255, cmd=3, ack=0, t=wake_t, p="" if proto == "2.2" else "1", **({"fault": f} if f else {}))  # noqa: E731
    for _ in range(rnd.randint(1, 5)):
        evs.append(wake(1, f"rel:{rnd.randint(1, ncmd)}"))
        if rnd.random() < 0.3:
            evs.append(wake(2))
    evs.append(wake(1))
    evs.append(wake(1))
    evs.append(wake(2))
    return init, evs


def crowd_history(rnd: random.Random) -> tuple[dict, list]:
    """C08 / C07: hundreds of commands parked at once (a release that fails early keeps all the others), then wakes."""
    proto = rnd.choice(["2.0", "2.1", "2.2"])
    wake_t = 32 if proto == "2.2" else 22
    kids = [[c, {"type": 6, "desc": "", "vals": []}] for c in range(0, 40)]
    nodes = [[n, {"type": 17, "ver": "2.0", "bat": 0, "sn": "", "sv": "", "hb": 0, "sl": True, "rb": False, "ch": kids}] for n in (1, 2)]
    init = {"metric": True, "ver": proto, "proto": proto, "nodes": nodes}
    evs = []
    for i in range(300):
        evs.append(dict(k="send", n=1 + (i % 7 == 0), c=i % 40, cmd=1, ack=0, t=i // 40, p=f"v{i}", buf=True))
    wake = lambda n, f=None: dict(k="recv", n=n, c=255, cmd=3, ack=0, t=wake_t, p="" if proto == "2.2" else "1", **({"fault": f} if f else {}))  # noqa: E731
    evs.append(wake(1, "rel:2"))
    evs.append(wake(1))
    evs.append(wake(2))
    evs.append(wake(1))
    return init, evs


def version_grid(tier: str) -> list[tuple[dict, list]]:
    """C05: every release version of a grid, reported through both wire paths, followed by type-gate probes."""
    out = []
    majors = [0, 1, 2, 3, 10] if tier == "quick" else [0, 1, 2, 3, 10, 99999]
    probes = [dict(k="recv", n=1, c=255, cmd=3, ack=0, t=t, p="") for t in (14, 15, 17, 18, 28, 29, 32, 33, 34, -1, -15)]
    probes += [dict(k="recv", n=1, c=255, cmd=4, ack=0, t=t, p="") for t in (0, 5, 6, -1)]
    k = 0
    for major in majors:
        for minor in (0, 1, 2, 3, 4, 5, 6, 10, 12, 15):
            for patch in (None, 0, 1, 2):
                for build in (None, 0, 7):
                    if patch is None and build is not None:
                        continue
                    ver = f"{major}.{minor}" + (f".{patch}" if patch is not None else "") + (f".{build}" if build is not None else "")
                    k += 1
                    init = {"metric": True, "ver": "none" if k % 3 else "2.1", "proto": "1.4" if k % 3 else "2.1",
                            "nodes": [[1, {"type": 17, "ver": "2.0", "bat": 0, "sn": "", "sv": "", "hb": 0, "sl": False, "rb": False, "ch": []}]]}
                    if k % 4 == 1:
                        # a persistence file that also holds the gateway's own node with the version it had last time:
                        # entering the context loads it; the rules in force still follow the REPORTED version only
                        init["persist"] = True
                        init["nodes"].append([0, {"type": 18, "ver": ["2.2.0", "2.1.1", "1.5.0", "2.0.0"][(k // 4) % 4], "bat": 0, "sn": "", "sv": "",
                                                  "hb": 0, "sl": False, "rb": False, "ch": []}])
                        init["nodes"].sort()
                    report = (dict(k="recv", n=0, c=255, cmd=3, ack=0, t=2, p=ver) if k % 2
                              else dict(k="recv", n=0, c=255, cmd=0, ack=0, t=18, p=ver))
                    if init.get("persist"):
                        # entered before anything was reported: probes, then the report, then probes again
                        out.append((init, [dict(k="cycle")] + probes[(k % 5):(k % 5) + 6] + [report] + probes[(k % 4):] + [dict(k="cycle")] + probes[:2]))
                    else:
                        out.append((init, [report] + probes[(k % 4):] + [dict(k="cycle")] + probes[:2]))
    return out


def stream_history(rnd: random.Random, length: int) -> tuple[dict, list]:
    """C03 over a real stream transport: lines whose payload bytes may be invalid UTF-8."""
    proto = rnd.choice(["1.4", "2.0", "2.2"])
    init = {"metric": True, "ver": proto, "proto": proto, "stream": True, "nodes": [
        [1, {"type": 17, "ver": "2.0", "bat": 0, "sn": "", "sv": "", "hb": 0, "sl": False, "rb": False,
             "ch": [[0, {"type": 6, "desc": "", "vals": []}], [1, {"type": 6, "desc": "", "vals": [[0, "a"]]}]]}]]}
    pays = [b"a", b"\xff", b"\xc3\xa9", b"\xc3", b"\xe2\x82", b"", b"\x80;x", b"57", b"\xed\xa0\x80"]
    evs = []
    for _ in range(length):
        n = rnd.choice([1, 1, 1, 2])
        c = rnd.choice([0, 1])
        r = rnd.random()
        pay = rnd.choice(pays)
        if r < 0.4:
            head, cmd, t = f"{n};{c};1;0;0;", 1, 0
        elif r < 0.7:
            head, cmd, t, pay = f"{n};{c};2;0;0;", 2, 0, b""
        elif r < 0.8:
            head, cmd, t, c = f"{n};255;3;0;11;", 3, 11, 255
        elif r < 0.9:
            head, cmd, t, c = f"{n};255;3;0;0;", 3, 0, 255
        else:
            head, cmd, t = f"{n};{c};0;0;6;", 0, 6
        raw = head.encode() + pay + b"\n"
        try:
            text = raw.decode("utf-8")
            p = text[len(head):-1]
            evs.append(dict(k="recv", n=n, c=c, cmd=cmd, ack=0, t=t, p=p, raw=list(raw)))
        except UnicodeDecodeError:
            evs.append(dict(k="recvundec", n=n, c=c, cmd=cmd, ack=0, t=t, p="", raw=list(raw)))
    if rnd.random() < 0.3:
        # the history ends with a line longer than the stream reader's limit (what follows it is left open)
        init["stream_limit"] = 64
        evs = [e for e in evs if len(e["raw"]) <= 64]
        evs.append(dict(k="recvlong", n=1, c=0, cmd=1, ack=0, t=0, p="", raw=list(b"1;0;1;0;0;" + b"x" * rnd.choice([60, 200, 5000]) + b"\n")))
    return init, evs


# ---------------------------------------------------------------------------------------

PROPS = {
    "C03": dict(focus={"family", "afterError"}, mc=[("absurd", 2, 3), ("presreq", 2, 3), ("version", 2, 3), ("ids", 2, 3)],
                rand=(300, 1500, 40)),
    "C04": dict(focus={"registry", "outcome"}, mc=[("registry", 3, 4)], rand=(300, 2000, 60)),
    "C05": dict(focus={"version", "gate", "outcomeKind"}, mc=[("version", 3, 4)], rand=(200, 1000, 30)),
    "C06": dict(focus={"react"}, mc=[("reactions", 2, 3)], rand=(300, 1500, 40)),
    "C07": dict(focus={"sets"}, mc=[("sleepbuf", 3, 4)], rand=(300, 2000, 60), faults=False),
    "C08": dict(focus={"sets", "faultReported"}, mc=[("sleepbuf", 3, 4)], rand=(300, 2000, 60), faults=True),
    "C10": dict(focus={"pres"}, mc=[("presreq", 3, 4)], rand=(300, 1500, 40)),
    "C11": dict(focus={"ids"}, mc=[("ids", 4, 5)], rand=(300, 1500, 12)),
    "C12": dict(focus={"sendres"}, mc=[("send", 3, 4)], rand=(300, 1500, 40)),
}

TZS = ["UTC0", "IST-5:30", "NST3:30", "LINT-14"]


def has_fault(mc, hist):
    return any(mc["alphabet"][i - 1].get("fault") for i in hist[1:])


def explain(trace: dict, pos: int, focus: set[str]) -> str:
    e = trace["events"][pos - 1]
    brief = {k: e[k] for k in ("k", "n", "c", "cmd", "ack", "t", "p", "buf", "fault", "out", "wr") if k in e}
    return f"event {pos} of the recorded execution is not a behaviour of the reference under focus {sorted(focus)}: {json.dumps(brief)[:900]}"


def signature(prop: str, trace: dict, pos: int) -> dict:
    e = trace["events"][pos - 1]
    return {"k": e["k"], "cmd": e.get("cmd"), "t": e.get("t"), "out": e["out"]["cls"] or e["out"]["k"]}


def diagnose(trace: dict, focus: set[str]) -> list[str]:
    """Which single focus elements reject this trace (names the failing clause)."""
    bad = []
    if len(focus) <= 1:
        return sorted(focus)
    for f in sorted(focus):
        res = tlc.validate([trace], {f}, shards=1)
        if res["verdicts"][0][0] == "reject":
            bad.append(f)
    return bad


def check(prop: str) -> int:
    common.enter_scratch()
    tier = common.tier()
    spec = PROPS[prop]
    rep = common.Report(prop, tier)
    rnd = random.Random(common.seed() * 7919 + int(prop[1:]))
    workdir = tlc.scratch()
    jobs = []
    try:
        tlc.stage(workdir)
        for focus, dq, dt in spec["mc"]:
            depth = dq if tier == "quick" else dt
            mc = run_mc(focus, depth, workdir)
            covers = mc["covers"]
            if "faults" in spec:
                covers = [h for h in covers if has_fault(mc, h) == spec["faults"]]
            emitted = len(covers)
            cap = 9000 if tier == "quick" else 60000
            if len(covers) > cap:   # replay every short history and a seeded sample of the longest ones
                longest = max(len(h) for h in covers)
                short = [h for h in covers if len(h) < longest]
                long_ = [h for h in covers if len(h) == longest]
                covers = short + rnd.sample(long_, max(0, cap - len(short)))
            rep.add_tlc(f"MC_{focus} depth {depth}", mc["summary"], {"histories_emitted": emitted, "histories_replayed": len(covers)})
            tzs = [None]
            if prop == "C06":
                tzs = TZS[:2] if tier == "quick" else TZS
            for k, h in enumerate(covers):
                init, events = concretise(focus, mc, h)
                jobs.append((init, events, tzs[k % len(tzs)]))
            if covers:
                init, events = concretise(focus, mc, covers[len(covers) // 2])
                rep.sample({"source": f"TLC cover of MC_{focus}", "init_ver": init["ver"],
                            "events": [{k: v for k, v in e.items() if k in ("k", "n", "c", "cmd", "t", "p", "buf", "fault")} for e in events]})
        refinement = {"C07": ("MC_ledger", "spec/Ledger.tla", ["LedgerInv", "Refines", "LedgerStepProps"], 3, 4),
                      "C08": ("MC_ledger", "spec/Ledger.tla", ["LedgerInv", "Refines", "LedgerStepProps"], 3, 4),
                      "C10": ("MC_presrule", "spec/PresRule.tla", ["RuleInv", "Refines", "RuleStepProps"], 3, 4),
                      "C11": ("MC_idrule", "spec/IdRule.tla", ["RuleInv", "Refines", "RuleStepProps"], 4, 5)}.get(prop)
        if refinement:
            # the reference refines the small rule proved without bounds (TLAPS, spec/proofs; ./check proofs)
            mod, target, formulas, dq, dt = refinement
            depth = dq if tier == "quick" else dt
            text = re.sub(r"MaxDepth = \d+", f"MaxDepth = {depth}", open(os.path.join(workdir, mod + ".cfg")).read())
            with open(os.path.join(workdir, mod + "_run.cfg"), "w") as fil:
                fil.write(text)
            out = tlc.run(workdir, mod, mod + "_run.cfg", workers=4)
            summ = tlc.summary(out)
            if summ["violated"] or summ["error"] or not summ["generated"]:
                common.machinery_failure(f"{mod}: the reference no longer refines {target} ({summ['violated']}):\n" + out[-3000:])
            summ["formulas_checked"] = formulas
            rep.add_tlc(f"{mod} depth {depth} (refinement of {target}, proved in spec/proofs)", summ)
        if prop == "C08":
            # the failing release under concurrency: suspended writes, senders racing with the flush, one write
            # of the flush failed by the harness at any point (harness/race.py, judged by RaceMonitor.tla)
            from . import race
            fruns, fverdicts, fstates, fsumm = race.fault_exploration(tier, workdir)
            rep.add_tlc("MC_race with Faults = TRUE (FlushRace.tla: the pending write of the flush may fail)", fsumm,
                        {"schedules_with_a_failed_write_replayed": fsumm.get("model_schedules_with_a_failed_write_replayed", 0)})
            rep.cov["states"] += fstates
            rep.cov["faulted_race_schedules"] = {"explored": len(fruns), "with_a_failed_write": sum(1 for r in fruns if r["faults"])}
            rep.add_traces(len(fruns))
            for r, v in zip(fruns, fverdicts):
                if r["errors"]:
                    v = "task-error"
                if v != "ok":
                    rep.violation({"verdict": v, "faulted": bool(r["faults"])},
                                  {"kind": "race-schedule", "proto": r["proto"], "init": r["init"], "plan": r["plan"], "max_faults": 1,
                                   "schedule": r["schedule"], "events": r["events"], "errors": r["errors"]},
                                  f"{v}: protocol {r['proto']}, parked {r['init']}, senders {json.dumps(r['plan'])}, schedule {json.dumps(r['schedule'])}; "
                                  f"events {[(e['e'], e['v']) for e in r['events'] if e['e'].startswith('write')]} {r['errors']}")
        # random deep behaviours of the unfocused model (all features interacting)
        sim = run_sim(150 if tier == "quick" else 2500, 25 if tier == "quick" else 40, common.seed() * 31 + int(prop[1:]), workdir)
        sim_hists = [h for h in sim["covers"] if "faults" not in spec or has_fault(sim, h) == spec["faults"]]
        rep.add_tlc("MC_all (tlc -simulate)", sim["summary"], {"behaviours_replayed": len(sim_hists), "simulation": True,
                                                               "exhaustive_within_model_bounds": False})
        for h in sim_hists:
            init, events = concretise("all", sim, h)
            jobs.append((init, events, None))
        nq, nt, length = spec["rand"]
        nrand = nq if tier == "quick" else nt
        for _ in range(nrand):
            init, events = random_history(rnd, prop, length)
            jobs.append((init, events, None))
        if prop in ("C04", "C06"):
            # the same kind of history with the gateway on a real MQTTClient (over a fake broker client)
            for _ in range(nrand // 3):
                init, events = random_history(rnd, prop, length)
                init["mqtt"] = True
                events = [e for e in events if e["k"] in ("recv", "send", "reboot") and not e.get("fault")]
                jobs.append((init, events, None))
        if prop == "C08":
            for _ in range(nrand // 2):
                init, events = storm_history(rnd)
                jobs.append((init, events, None))
            for _ in range(2 if tier == "quick" else 6):
                init, events = crowd_history(rnd)
                jobs.append((init, events, None))
        if prop == "C05":
            for init, events in version_grid(tier):
                jobs.append((init, events, None))
        if prop == "C03":
            # every invalid line of the fixed classes and every generated one, each followed by a well-formed line
            for k, (cls, line) in enumerate([(c, ln) for c, lines in BAD_LINES.items() for ln in lines] + GENERATED_BAD):
                ver = ["none", "1.4", "2.0", "2.2"][k % 4]
                init = {"metric": True, "ver": ver, "proto": "1.4" if ver == "none" else ver,
                        "nodes": [[1, {"type": 17, "ver": "2.0", "bat": 0, "sn": "", "sv": "", "hb": 0, "sl": False, "rb": False,
                                       "ch": [[0, {"type": 6, "desc": "", "vals": []}]]}]]}
                jobs.append((init, [dict(k="recvbad", p=cls, line=line), dict(k="recv", n=1, c=0, cmd=1, ack=0, t=0, p="21.5")], None))
        if prop == "C03":  # the byte-stream half: the gateway over a real TCPTransport
            for _ in range(nrand):
                init, events = stream_history(rnd, 14)
                jobs.append((init, events, None))
        import shutil
        shutil.rmtree(workdir, ignore_errors=True)
        traces = execute(jobs)
        # executions recorded from the repository's own gateway tests (harness/suite.py)
        try:
            sdoc = suite.record()
        except Exception as err:  # noqa: BLE001 - an additional source of executions: its absence is recorded, not fatal
            print(f"note: no executions recorded from the repository's tests ({type(err).__name__}: {str(err)[:200]})", file=sys.stderr)
            sdoc = {"traces": [], "skipped": [], "pytest_tail": [f"recorder failed: {type(err).__name__}"]}
        straces = suite.as_traces(sdoc)
        for t in straces:
            if t["direct"] and prop == "C04":
                rep.violation({"k": "several-lines-one-result"},
                              {"kind": "gateway-history", "focus": sorted(spec["focus"]), "input": t["input"],
                               "rejected_at_event": t["direct"]["after_events"] + 1,
                               "failing_clauses": ["every handled line is yielded exactly once"], "recorded": t["direct"]},
                              f"test {t['input']['suite_test']}: one listen step consumed several lines: {t['direct']['lines']}")
        straces = [t for t in straces if t["events"]]
        traces += straces
        rep.cov["suite_traces"] = {"recorded_from": suite.TARGETS, "traces": len(straces),
                                   "events": sum(len(t["events"]) for t in straces),
                                   "gateways_not_recorded": len(sdoc["skipped"]), "pytest": sdoc["pytest_tail"]}
        # A public value outside the model's domain (a non-integer id, a non-string text, an integer the
        # harness never feeds) can only come from a defect: such an execution is reported directly
        # (TLC cannot compare values of different kinds) and is not sent to trace validation.
        clean = []
        for t in traces:
            blob = json.dumps([[e["post"], e["out"], e["wr"]] for e in t["events"]])
            m = re.search(r'"(NONINT|NONSTR|UNREADABLE|BIG):?[^"]{0,60}', blob)
            if m:
                pos = next(i for i, e in enumerate(t["events"], 1) if m.group(0)[1:20] in json.dumps([e["post"], e["out"], e["wr"]]))
                rep.violation({"k": "domain", "token": m.group(1)},
                              {"kind": "gateway-history", "focus": sorted(spec["focus"]), "input": t["input"], "rejected_at_event": pos,
                               "failing_clauses": ["value outside the model's domain"], "recorded": t["events"][max(0, pos - 2): pos]},
                              f"event {pos}: the public state / outcome / writes hold a value of the wrong kind: {m.group(0)[1:]}")
            else:
                clean.append(t)
        traces = clean
        rep.cov["evaluations"] = len(traces)
        rep.cov["events_executed"] = sum(len(t["events"]) for t in traces)
        res = tlc.validate([{"init": t["init"], "events": t["events"]} for t in traces], spec["focus"],
                           shards=12 if tier == "quick" else 16)
        rep.add_traces(len(traces))
        rep.cov["trace_validation_states"] = res["states"]
        rep.cov["distinct_nontrivial"] = len({json.dumps(t["input"], sort_keys=True, default=str) for t in traces if len(t["events"]) > 1})
        rep.cov["rule"] = ("histories = TLC-emitted transition covers of the focus configurations (one per abstract transition, "
                           "shortest prefix) + seeded random histories; non-trivial = more than one event; distinct by input")
        rep.sample({"source": "recorded execution (first events)", "events": [
            {k: e[k] for k in ("k", "n", "c", "cmd", "t", "p", "out", "wr")} for e in traces[-1]["events"][:3]]})
        nrej = 0
        for t, (status, pos) in zip(traces, res["verdicts"]):
            if status != "reject":
                continue
            nrej += 1
            clauses = diagnose({"init": t["init"], "events": t["events"]}, spec["focus"]) if nrej <= 3 else []
            rep.violation(signature(prop, t, pos),
                          {"kind": "gateway-history", "focus": sorted(spec["focus"]), "input": t["input"],
                           "rejected_at_event": pos, "failing_clauses": clauses,
                           "recorded": t["events"][max(0, pos - 3): pos]},
                          explain(t, pos, spec["focus"]) + (f" failing clause(s): {clauses}" if clauses else ""))
        rep.assumptions += [
            "TLC, its Json module and the Python harness (fake transport, projection of the public state) are trusted",
            "exhaustive only inside the constants of the focus configuration; beyond them histories are random",
            "the time reply is checked by the harness against the local clock (interval), all else by TLC",
        ]
        return rep.finish()
    finally:
        import shutil
        shutil.rmtree(workdir, ignore_errors=True)


def replay(doc: dict) -> int:
    """Re-execute the input of a replay file on the current code and validate it again."""
    common.enter_scratch()
    inp = doc["input"]
    if "suite_test" in inp:
        sdoc = suite.record(only=os.path.join(common.REPO_ROOT, inp["suite_test"]))
        cands = [t for t in suite.as_traces(sdoc) if t["input"] == inp and t["events"]]
        if not cands:
            print("replay: the test no longer produces a recorded execution")
            return 2
        res = tlc.validate([{"init": cands[0]["init"], "events": cands[0]["events"]}], set(doc["focus"]), shards=1)
        status, pos = res["verdicts"][0]
        if status == "reject":
            print(f"VIOLATION property={doc['property']} replay=(this file)")
            print("  " + explain(cands[0], pos, set(doc["focus"])))
            return 1
        print("replay: the execution recorded from the test is accepted by the reference on the current tree")
        return 0
    events = []
    for ev in inp["events"]:
        ev = dict(ev)
        if ev["k"] == "sendjunk":
            ev["obj"] = JUNK[ev["p"]]
        events.append(ev)
    tr = _exec((inp["init"], events, inp.get("tz")))
    res = tlc.validate([{"init": tr["init"], "events": tr["events"]}], set(doc["focus"]), shards=1)
    status, pos = res["verdicts"][0]
    if status == "reject":
        print(f"VIOLATION property={doc['property']} replay=(this file)")
        print("  " + explain(tr, pos, set(doc["focus"])))
        return 1
    print("replay: the recorded input is accepted by the reference on the current tree")
    return 0
