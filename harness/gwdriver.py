"""Drive the real aiomysensors Gateway along a sequence of abstract events and record
a trace for validation by TLC against spec/MySensorsTrace.tla.

Everything is observed through the public API: Gateway.nodes, Gateway.protocol_version,
Gateway.protocol.VERSION, the value / exception of each listen step and send call, and
the calls a fake Transport receives.  No private attribute of the library is read.
"""
from __future__ import annotations

import asyncio
import os
import re
import shutil
import time

from aiomysensors import Gateway
from aiomysensors.exceptions import (
    AIOMySensorsError,
    InvalidMessageError,
    MissingChildError,
    MissingNodeError,
    PersistenceError,
    TooManyNodesError,
    TransportError,
    UnsupportedMessageError,
)
from aiomysensors.gateway import Config
from aiomysensors.model.message import Message
from aiomysensors.model.node import Child, Node
from aiomysensors.transport import Transport

BIG = 2**30


class InjectedFault(TransportError):
    """The transport error the fake transport raises on a selected write."""


class FakeTransport(Transport):
    """In-memory transport: lines are fed by hand, writes are recorded, a write
    selected *by content* can be made to fail."""

    def __init__(self) -> None:
        self.lines: list[str] = []
        self.writes: list[dict] = []
        self.fail_if = None  # callable(parsed write) -> bool
        self.slow_gate = None  # a future: writes wait for it (a peer that stopped reading for a long time)
        self.gateway: Gateway | None = None
        self.connected = 0
        self.disconnected = 0

    async def connect(self) -> None:
        self.connected += 1

    async def disconnect(self) -> None:
        self.disconnected += 1

    async def read(self) -> str:
        if not self.lines:
            await asyncio.get_running_loop().create_future()  # blocks for ever
        return self.lines.pop(0)

    async def write(self, decoded_message: str) -> None:
        rec = parse_write(decoded_message)
        rec["ids"] = sorted(self.gateway.nodes) if self.gateway is not None else []
        fail = bool(self.fail_if and self.fail_if(rec))
        rec["ok"] = not fail
        self.writes.append(rec)
        if fail:
            raise InjectedFault("injected write fault")
        if self.slow_gate is not None:
            try:
                await self.slow_gate
            except BaseException:
                rec["ok"] = False       # the caller gave up (a timeout of its own): the line was not taken
                raise


_LINE = re.compile(r"\A(-?\d+);(-?\d+);(-?\d+);(-?\d+);(-?\d+);([^\n]*)\n\Z")


def small(i) -> int | str:
    """Integers TLC can hold; anything else becomes an opaque token (which no reference value equals)."""
    if isinstance(i, bool) or not isinstance(i, int):
        try:
            i = int(i)
        except Exception:  # noqa: BLE001
            return f"NONINT:{type(i).__name__}"
    return i if -BIG < i < BIG else f"BIG:{i}"


def text_of(x) -> str:
    return x if isinstance(x, str) else f"NONSTR:{type(x).__name__}:{x!r}"[:80]


def parse_write(line) -> dict:
    """Split a written line into fields with a strict parser of the harness' own."""
    m = _LINE.match(line) if isinstance(line, str) else None
    if not m:
        return {"n": -9, "c": -9, "cmd": -9, "ack": -9, "t": -9, "p": repr(line), "raw": True}
    n, c, cmd, ack, t = (int(x) for x in m.groups()[:5])
    return {"n": small(n), "c": small(c), "cmd": small(cmd), "ack": small(ack), "t": small(t), "p": m.group(6)}


def proj_child(child: Child) -> dict:
    try:
        vals = [[small(k), text_of(v)] for k, v in sorted(child.values.items(), key=lambda kv: str(kv[0]))]
        vals.sort(key=lambda kv: (isinstance(kv[0], str), kv[0]))
    except Exception:  # noqa: BLE001
        vals = [["UNREADABLE", ""]]
    return {"type": small(child.child_type), "desc": text_of(child.description), "vals": vals}


def proj_node(node: Node) -> dict:
    try:
        children = [[small(cid), proj_child(ch)] for cid, ch in sorted(node.children.items(), key=lambda kv: str(kv[0]))]
        children.sort(key=lambda kv: (isinstance(kv[0], str), kv[0]))
    except Exception:  # noqa: BLE001
        children = [["UNREADABLE", {"type": 0, "desc": "", "vals": []}]]
    return {
        "type": small(node.node_type),
        "ver": text_of(node.protocol_version),
        "bat": small(node.battery_level) if isinstance(node.battery_level, int) and not isinstance(node.battery_level, bool) else f"NONINT:{node.battery_level!r}"[:40],
        "sn": text_of(node.sketch_name),
        "sv": text_of(node.sketch_version),
        "hb": small(node.heartbeat) if isinstance(node.heartbeat, int) and not isinstance(node.heartbeat, bool) else f"NONINT:{node.heartbeat!r}"[:40],
        "sl": bool(node.sleeping),
        "rb": bool(getattr(node, "reboot", False)),
        "ch": children,
    }


def proj(gateway: Gateway) -> dict:
    """The public projection of the controller state."""
    return {
        "ver": "none" if gateway.protocol_version is None else gateway.protocol_version,
        "proto": gateway.protocol.VERSION,
        "nodes": sorted([[small(nid), proj_node(node)] for nid, node in gateway.nodes.items()],
                        key=lambda kv: (isinstance(kv[0], str), kv[0])),
    }


def classify(err: BaseException) -> dict:
    cls = "NonLib:" + type(err).__name__
    ident = -1
    if isinstance(err, MissingNodeError):
        cls, ident = "MissingNode", getattr(err, "node_id", -1)
    elif isinstance(err, MissingChildError):
        cls, ident = "MissingChild", getattr(err, "child_id", -1)
    elif isinstance(err, TooManyNodesError):
        cls = "TooManyNodes"
    elif isinstance(err, InvalidMessageError):
        cls = "InvalidMessage"
    elif isinstance(err, UnsupportedMessageError):
        cls = "Unsupported"
    elif isinstance(err, TransportError):
        cls = "Transport"
    elif isinstance(err, PersistenceError):
        cls = "Persistence"
    elif isinstance(err, AIOMySensorsError):
        cls = "LibOther"
    if not isinstance(ident, int) or isinstance(ident, bool):
        ident = -7
    return {"k": "err" if not cls.startswith("NonLib") else "other", "cls": cls, "id": small(ident), "m": NOMSG}


NOMSG = {"n": -1, "c": -1, "cmd": -1, "ack": -1, "t": -1, "p": ""}


def msg_fields(msg) -> dict:
    try:
        return {
            "n": small(int(msg.node_id)),
            "c": small(int(msg.child_id)),
            "cmd": small(int(msg.command)),
            "ack": small(int(msg.ack)),
            "t": small(int(msg.message_type)),
            "p": msg.payload if isinstance(msg.payload, str) else repr(msg.payload),
        }
    except Exception as exc:  # noqa: BLE001
        return {"n": -8, "c": -8, "cmd": -8, "ack": -8, "t": -8, "p": "unreadable:" + type(exc).__name__}


def build_registry(gateway: Gateway, nodes: list) -> None:
    """Preload a registry ("restored from persistence") given in projection form."""
    for nid, nd in nodes:
        node = Node(
            nid,
            nd["type"],
            nd["ver"],
            sketch_name=nd.get("sn", ""),
            sketch_version=nd.get("sv", ""),
            battery_level=nd.get("bat", 0),
            heartbeat=nd.get("hb", 0),
            sleeping=nd.get("sl", False),
        )
        node.reboot = nd.get("rb", False)
        for cid, cd in nd.get("ch", []):
            node.add_child(cid, cd["type"], description=cd.get("desc", ""), values={k: v for k, v in cd.get("vals", [])})
        gateway.nodes[nid] = node


def line_of(ev: dict) -> str:
    return f"{ev['n']};{ev['c']};{ev['cmd']};{ev['ack']};{ev['t']};{ev['p']}\n"


def fault_selector(ev: dict):
    """Content-based selection of the write that fails for this event."""
    f = ev.get("fault") or ""
    if not f:
        return None
    if f == "pres":
        return lambda w: w["cmd"] == 3 and w["t"] == 19
    if f == "send":
        return lambda w: True
    if f == "rel" or f.startswith("rel:"):
        # "rel:<k>": the k-th (1-based) released set command of this step fails; plain "rel": the first
        k = int(f.split(":")[1]) if ":" in f else 1
        seen = {"i": 0}

        def sel(w):
            if w["cmd"] != 1:
                return False
            seen["i"] += 1
            return seen["i"] == k

        return sel
    if f.startswith("relkey:"):
        # "relkey:<child>:<type>": the released command for that key fails
        _, c, t = f.split(":")
        return lambda w: w["cmd"] == 1 and w["c"] == int(c) and w["t"] == int(t)
    raise ValueError(f"unknown fault {f}")


class StreamEnd:
    """The peer side of a real TCPTransport: a hand-fed StreamReader and a recording writer."""

    def __init__(self, loop, limit: int = 2 ** 16) -> None:
        from aiomysensors.transport.tcp import TCPTransport

        self.transport = TCPTransport("host.invalid")
        self.reader = asyncio.StreamReader(limit=limit, loop=loop)
        self.out = bytearray()
        end = self

        class Writer:
            def write(self, data):
                end.out.extend(data)

            async def drain(self):
                return None

            def close(self):
                return None

            async def wait_closed(self):
                return None

        writer = Writer()
        writer.is_closing = lambda: False
        writer.get_extra_info = lambda *_a, **_k: None

        class _T:       # the asyncio transport beneath the writer: everything handed over has left
            def get_write_buffer_size(self):
                return 0

            def is_closing(self):
                return False

            def get_extra_info(self, *_a, **_k):
                return None

        writer.transport = _T()

        async def factory(*_a, **_k):
            return end.reader, writer

        # connected the way an application does it - connect() over a substituted asyncio.open_connection - so that
        # nothing depends on how the transport keeps its streams
        from unittest import mock
        with mock.patch("asyncio.open_connection", factory):
            loop.run_until_complete(asyncio.wait_for(self.transport.connect(), 5))
        self.taken = 0

    def new_writes(self) -> list[dict]:
        data = bytes(self.out[self.taken:])
        self.taken = len(self.out)
        recs = []
        if not data:
            return recs
        for part in data.split(b"\n")[:-1] if data.endswith(b"\n") else data.split(b"\n"):
            try:
                rec = parse_write(part.decode("utf-8") + "\n")
            except UnicodeDecodeError:
                rec = parse_write(None)
            rec["ids"] = []
            rec["ok"] = True
            recs.append(rec)
        return recs


class MqttEnd:
    """The broker side of a real MQTTClient over a fake aiomqtt client: lines arrive as broker
    messages on the in-prefix, writes are what the client publishes under the out-prefix."""

    def __init__(self, loop) -> None:
        from aiomysensors.transport import mqtt as mqtt_mod

        from .mqttcheck import FakeAioMqtt, _Msg
        self._msg = _Msg
        mqtt_mod.AsyncioClient = FakeAioMqtt
        FakeAioMqtt.connect_fault = False
        FakeAioMqtt.current = None
        self.transport = mqtt_mod.MQTTClient("broker.invalid", in_prefix="verif/in", out_prefix="verif/out")
        loop.run_until_complete(asyncio.wait_for(self.transport.connect(), 5))
        self.fake = FakeAioMqtt.current
        self.taken = 0

    def feed(self, line: str) -> None:
        body = line.rstrip("\n")
        parts = body.split(";", 5)
        topic = "verif/in/" + "/".join(parts[:5])
        self.fake.queue.put_nowait(self._msg(topic, (parts[5] if len(parts) > 5 else "").encode("utf-8")))

    def new_writes(self) -> list[dict]:
        pubs = self.fake.published[self.taken:]
        self.taken = len(self.fake.published)
        recs = []
        for pub in pubs:
            levels = pub["topic"].split("/")
            ok_prefix = levels[:2] == ["verif", "out"] and len(levels) == 7    # prefix + node/child/command/ack/type
            pay = pub["payload"]
            if isinstance(pay, bytes):
                pay = pay.decode("utf-8", "replace")
            rec = parse_write(";".join(levels[2:] + [pay or ""]) + "\n") if ok_prefix else parse_write(None)
            if not rec.get("raw") and pub["qos"] != rec["ack"]:
                rec = dict(rec, p=rec["p"] + f" <qos {pub['qos']}>")
            rec["ids"] = []
            rec["ok"] = True
            recs.append(rec)
        return recs


class Run:
    """One execution of the real gateway."""

    def __init__(self, init: dict) -> None:
        self.loop = asyncio.new_event_loop()
        self.stream = None
        self.mqtt = None
        if init.get("stream"):
            self.stream = StreamEnd(self.loop, init.get("stream_limit", 2 ** 16))
            self.transport = self.stream.transport
        elif init.get("mqtt"):
            self.mqtt = MqttEnd(self.loop)
            self.transport = self.mqtt.transport
        else:
            self.transport = FakeTransport()
        if init.get("persist"):
            # the gateway has a persistence file holding exactly the initial registry ("restored from persistence" for
            # real: every `cycle` event loads it on entering and saves on leaving)
            import tempfile
            self.persist_dir = tempfile.mkdtemp(prefix="verif-gwpersist-")
            ppath = os.path.join(self.persist_dir, "registry.json")
            self.gateway = Gateway(self.transport, Config(metric=init.get("metric", True), persistence_file=ppath))
        else:
            self.gateway = Gateway(self.transport, Config(metric=init.get("metric", True)))
        if self.stream is None and self.mqtt is None:
            self.transport.gateway = self.gateway
        build_registry(self.gateway, init.get("nodes", []))
        if init.get("persist"):
            self.loop.run_until_complete(asyncio.wait_for(self.gateway.persistence.save(), 20))
        if init.get("ver", "none") != "none":
            self.gateway.protocol_version = init["ver"]
        self.gen = None
        self._skew = 0.0
        real_clock = self.loop.time
        self.loop.time = lambda: real_clock() + self._skew      # the loop's clock can be moved forward
        self.init = {"metric": init.get("metric", True)}
        self.events: list[dict] = []

    def close(self) -> None:
        try:
            if self.gen is not None:
                self.loop.run_until_complete(self.gen.aclose())
            pending = [t for t in asyncio.all_tasks(self.loop) if not t.done()]
            for t in pending:
                t.cancel()
            if pending:
                self.loop.run_until_complete(asyncio.gather(*pending, return_exceptions=True))
        finally:
            self.loop.close()
            if hasattr(self, "snap_dir"):
                shutil.rmtree(self.snap_dir, ignore_errors=True)
            if hasattr(self, "persist_dir"):
                shutil.rmtree(self.persist_dir, ignore_errors=True)

    # -- one step ------------------------------------------------------------------
    def _await(self, coro):
        """Run coro to completion; a step that blocks although input is available is 'blocked'."""
        task = self.loop.create_task(coro)
        for _ in range(200):
            self.loop.run_until_complete(asyncio.sleep(0))
            if task.done():
                break
        gate = getattr(self.transport, "slow_gate", None)
        if gate is not None:
            # the peer does not take the line for an hour (of the loop's clock), then it does: slow is not failed
            if not task.done():
                self._skew += 3600.0
                for _ in range(30):
                    self.loop.run_until_complete(asyncio.sleep(0))
            if not gate.done():
                gate.set_result(None)
            self.transport.slow_gate = None
            for _ in range(200):
                if task.done():
                    break
                self.loop.run_until_complete(asyncio.sleep(0))
        if not task.done():
            task.cancel()
            try:
                self.loop.run_until_complete(task)
            except BaseException:  # noqa: BLE001
                pass
            return None, "blocked"
        try:
            return task.result(), None
        except asyncio.CancelledError as err:
            return None, err
        except BaseException as err:  # noqa: BLE001
            return None, err

    def step(self, ev: dict) -> dict:
        gw, tr = self.gateway, self.transport
        rec = {
            "k": ev["k"], "n": ev.get("n", 0), "c": ev.get("c", 0), "cmd": ev.get("cmd", 0),
            "ack": ev.get("ack", 0), "t": ev.get("t", 0), "p": ev.get("p", ""),
            "pc": [ord(ch) for ch in ev.get("p", "")], "buf": bool(ev.get("buf", False)),
            "fault": (ev.get("fault") or "").split(":")[0],
        }
        rec["pre"] = proj(gw)
        if self.stream is None and self.mqtt is None:
            tr.writes = []
            tr.fail_if = fault_selector(ev)
            tr.slow_gate = self.loop.create_future() if ev.get("slow") else None
        t0 = time.time()
        kind = ev["k"]
        if kind in ("recv", "recvbad", "recvundec", "recvlong") and self.stream is not None:
            # the line travels as bytes through the real stream transport
            raw = bytes(ev["raw"]) if "raw" in ev else (ev["line"] if kind == "recvbad" else line_of(ev)).encode("utf-8")
            self.stream.reader.feed_data(raw)
            if self.gen is None:
                self.gen = gw.listen()
            val, err = self._await(self.gen.__anext__())
            if err is not None:
                self.gen = None
            out = self._outcome(val, err, yielded=True)
        elif kind == "recv" and self.mqtt is not None:
            self.mqtt.feed(line_of(ev))
            if self.gen is None:
                self.gen = gw.listen()
            val, err = self._await(self.gen.__anext__())
            if err is not None:
                self.gen = None
            out = self._outcome(val, err, yielded=True)
        elif kind in ("recv", "recvbad"):
            tr.lines.append(ev["line"] if kind == "recvbad" else line_of(ev))
            if self.gen is None:
                self.gen = gw.listen()
            val, err = self._await(self.gen.__anext__())
            if err is not None:
                self.gen = None  # an exception ends the generator; the application calls listen() again
                tr.lines.clear()
            out = self._outcome(val, err, yielded=True)
        elif kind == "send":
            msg = Message(ev["n"], ev["c"], ev["cmd"], ev["ack"], ev["t"], ev["p"])
            if rec["buf"]:
                val, err = self._await(gw.send(msg))  # the default: buffering allowed
            else:
                val, err = self._await(gw.send(msg, message_buffer=False))
            out = self._outcome(val, err, yielded=False)
        elif kind == "sendjunk":
            val, err = self._await(gw.send(ev["obj"]))
            out = self._outcome(val, err, yielded=False)
        elif kind in ("snapshot", "reload"):
            from aiomysensors.persistence import Persistence
            import tempfile
            if not hasattr(self, "snap_path"):
                self.snap_dir = tempfile.mkdtemp(prefix="verif-snap-")
                self.snap_path = os.path.join(self.snap_dir, "snap.json")
            pers = Persistence(gw.nodes, self.snap_path)
            if kind == "snapshot" or not os.path.exists(self.snap_path):
                val, err = self._await(pers.save())
            else:
                val, err = self._await(pers.load())
            out = self._outcome(val, err, yielded=False)
        elif kind == "cycle":
            async def cycle():
                async with gw:
                    pass
            if self.gen is not None:
                self._await(self.gen.aclose())
                self.gen = None
            if hasattr(self, "persist_dir"):
                # real file operations run in aiofiles' thread pool: wait for them in wall-clock time
                try:
                    val, err = self.loop.run_until_complete(asyncio.wait_for(cycle(), 30)), None
                except (asyncio.TimeoutError, TimeoutError):
                    val, err = None, "blocked"
                except BaseException as exc:  # noqa: BLE001
                    val, err = None, exc
            else:
                val, err = self._await(cycle())
            out = self._outcome(val, err, yielded=False)
        elif kind == "sibling":
            # a second Gateway object in the same process (another serial port, another broker) learns a version
            other_tr = FakeTransport()
            other = Gateway(other_tr)
            other_tr.gateway = other
            other_tr.lines.append(f"0;255;3;0;2;{ev.get('p') or '1.5.1'}\n")
            gen2 = other.listen()
            self._await(gen2.__anext__())
            self.siblings = getattr(self, "siblings", []) + [(other, gen2)]
            out = {"k": "ok", "cls": "", "id": -1, "m": NOMSG}
        elif kind == "reboot":
            if ev["n"] in gw.nodes:
                gw.nodes[ev["n"]].reboot = True
            out = {"k": "ok", "cls": "", "id": -1, "m": NOMSG}
        else:
            raise ValueError(kind)
        if kind in ("recv", "recvbad", "recvundec", "recvlong") and out["k"] == "yield":
            # the yielded message belongs to the application: whatever it does to the object afterwards must not
            # reach the controller (a later identical line decodes afresh)
            for attr, junk in (("payload", "\x00tampered by the application"), ("ack", 1 - int(bool(getattr(val, "ack", 0)))),
                               ("message_type", 250), ("child_id", 254)):
                try:
                    setattr(val, attr, junk)
                except Exception:  # noqa: BLE001 - an immutable message is fine too
                    pass
        t1 = time.time()
        if self.mqtt is not None:
            writes = self.mqtt.new_writes()
        elif self.stream is None:
            tr.fail_if = None
            writes = tr.writes
        else:
            writes = self.stream.new_writes()
        rec["out"] = out
        rec["wr"] = [self._time_token(w, t0, t1) for w in writes]
        rec["post"] = proj(gw)
        rec["hint"] = self._hint(rec)
        self.events.append(rec)
        return rec

    @staticmethod
    def _outcome(val, err, *, yielded: bool) -> dict:
        if err == "blocked":
            return {"k": "blocked", "cls": "", "id": -1, "m": NOMSG}
        if err is not None:
            return classify(err)
        if yielded:
            return {"k": "yield", "cls": "", "id": -1, "m": msg_fields(val)}
        return {"k": "ok", "cls": "", "id": -1, "m": NOMSG}

    @staticmethod
    def _time_token(w: dict, t0: float, t1: float) -> dict:
        """The time reply is checked against the local clock here: a decimal payload inside
        [t0 + utcoffset, t1 + utcoffset] (whole seconds) is replaced by the token <TIME>."""
        if w["cmd"] == 3 and w["t"] == 1 and re.fullmatch(r"\d{1,12}", w["p"] or ""):
            lo = int(t0) + _utcoffset(t0) - 1
            hi = int(t1) + _utcoffset(t1) + 1
            if lo <= int(w["p"]) <= hi:
                return dict(w, p="<TIME>")
        return w

    @staticmethod
    def _hint(rec: dict) -> dict:
        ident = 0
        for w in rec["wr"]:
            if w["cmd"] == 3 and w["t"] == 4 and re.fullmatch(r"[1-9]\d{0,3}", w["p"] or ""):
                ident = int(w["p"])
        return {"id": ident}


def _utcoffset(t: float) -> int:
    lt = time.localtime(t)
    return lt.tm_gmtoff


def run_history(init: dict, events: list[dict]) -> dict:
    """Execute one history on a fresh gateway and return its trace."""
    run = Run(init)
    try:
        for ev in events:
            run.step(ev)
    finally:
        run.close()
    return {"init": run.init, "events": run.events}
