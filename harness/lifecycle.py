"""C16: gateway context life cycle, decided with spec/Lifecycle.tla (model of main / saver / file
jobs, model-checked by TLC, schedules replayed) and spec/LifecycleMonitor.tla (reference that
judges recorded executions of the REAL code).

The real Gateway runs on a virtual-time loop whose thread-pool jobs (every aiofiles operation) wait
for the harness.  The harness enumerates, depth first, every choice the real code offers: complete
a pending file job of the main task or of the saver (run + deliver, or run now and deliver later),
let the body finish (normally / with an exception), change the registry, advance time to the next
timer.  Faults: connect fails, disconnect fails.  Transports: fake, TCP, serial, MQTT over fakes.
"""
from __future__ import annotations

import asyncio
import json
import multiprocessing
import os
import re
import shutil
import tempfile

from aiomysensors import Gateway
from aiomysensors.exceptions import AIOMySensorsError, TransportError
from aiomysensors.gateway import Config
from aiomysensors.model.node import Node

from . import common, tlc
from .gwdriver import FakeTransport
from .vloop import VLoop


class BodyError(Exception):
    """What the application body raises in the 'raise' scenarios."""


class LifeTransport(FakeTransport):
    def __init__(self, connect_fail: bool, disconnect_fail: bool) -> None:
        super().__init__()
        self.connect_fail, self.disconnect_fail = connect_fail, disconnect_fail
        self.connect_hangs = False
        self.connecting = False

    async def connect(self) -> None:
        if self.connect_hangs:
            self.connecting = True
            try:
                await asyncio.get_running_loop().create_future()    # until the caller is cancelled
            finally:
                self.connecting = False
        self.connected += 1
        if self.connect_fail:
            self.connected -= 1
            raise TransportError("injected connect failure")

    async def disconnect(self) -> None:
        self.disconnected += 1
        if self.disconnect_fail:
            raise TransportError("injected disconnect failure")


STREAM_STATE: dict[int, dict] = {}


def make_transport(kind: str, connect_fail: bool, disconnect_fail: bool):
    """Returns (transport, counters()) for the built-in kinds over fakes."""
    if kind == "fake":
        tr = LifeTransport(connect_fail, disconnect_fail)
        return tr, (lambda: (tr.connected, tr.disconnected)), None
    if kind in ("tcp", "serial"):
        from unittest import mock

        from aiomysensors.transport.serial import SerialTransport
        from aiomysensors.transport.tcp import TCPTransport

        from .stream import FakeWriter
        state = {"c": 0, "w": None}

        async def factory(*_a, **_k):
            if connect_fail:
                raise ConnectionRefusedError("injected")
            state["c"] += 1
            state["w"] = FakeWriter()
            state["r"] = asyncio.StreamReader()
            if disconnect_fail:
                state["w"].fault = "close"   # absorbed by the stream transport
            return state["r"], state["w"]

        tr = TCPTransport("host.invalid") if kind == "tcp" else SerialTransport("/dev/null-verif")
        STREAM_STATE[id(tr)] = state       # (kept beside the transport object, not on it)
        patches = [mock.patch("asyncio.open_connection", factory),
                   mock.patch("aiomysensors.transport.serial.open_serial_connection", factory)]
        return tr, (lambda: (state["c"], 1 if (state["w"] is not None and state["w"].closed) else 0)), patches
    if kind == "mqtt":
        from aiomysensors.transport import mqtt as mqtt_mod

        from .mqttcheck import FakeAioMqtt
        mqtt_mod.AsyncioClient = FakeAioMqtt
        FakeAioMqtt.connect_fault = connect_fail
        FakeAioMqtt.current = None
        tr = mqtt_mod.MQTTClient("broker.invalid")

        def counters():
            f = FakeAioMqtt.current
            return (1 if (f is not None and not connect_fail) else 0, 1 if (f is not None and f.exited) else 0)
        return tr, counters, None
    raise ValueError(kind)


class LifeRun:
    def __init__(self, scen: dict, d: str) -> None:
        self.scen = scen
        self.loop = VLoop()
        self.path = os.path.join(d, "persist.json")
        if scen.get("file", "existing") == "existing":
            with open(self.path, "w") as fil:
                fil.write("{}")
        self.transport, self.counters, self.patches = make_transport(scen["transport"], scen["connect_fail"], scen["disconnect_fail"])
        scen.setdefault("connect_cancel", False)
        scen.setdefault("external_edit", False)
        if scen["connect_cancel"]:
            self.transport.connect_hangs = True
        self.gateway = Gateway(self.transport, Config(persistence_file=self.path))
        self.events: list[dict] = []
        self.inside = False
        self.entered_at = None
        self.body_future = self.loop.create_future()
        self.mutations = 0
        self.ticks = 0
        self.run_only_used = 0
        self.finished_body = False
        self.exit_exc = "pending"
        self.saw_exit = False
        for p in self.patches or []:
            p.start()
        if scen.get("prior_session"):
            # the same Gateway object was already used for a complete session (reconnect loop)
            pers = self.gateway.persistence
            bad_dir = os.path.join(d, "not-a-file")

            async def prior():
                async with self.gateway:
                    if scen.get("external_edit"):
                        self.gateway.nodes[90] = Node(90, 17, "2.0")
                    if scen.get("prior_saver_died") and pers is not None:
                        # the background saver of that earlier session fails (its file cannot be written) and ends
                        os.makedirs(bad_dir, exist_ok=True)
                        try:
                            pers.path = bad_dir
                        except Exception:  # noqa: BLE001 - a persistence object whose path cannot be redirected: plain earlier session
                            pass
                    await asyncio.sleep(0)
            t0 = self.loop.create_task(prior(), name="main")
            guard = 0
            while not t0.done() and guard < 200:
                guard += 1
                self.loop.settle()
                for j in self.loop.pending_jobs():
                    self.loop.run_job(j)
                    self.loop.deliver_job(j)
            self.loop.settle()
            if t0.done() and not t0.cancelled() and t0.exception() is not None:
                self.prior_error = type(t0.exception()).__name__
            if scen.get("prior_saver_died") and pers is not None:
                try:
                    pers.path = self.path        # the file is writable again for the session under observation
                except Exception:  # noqa: BLE001
                    pass
            if scen["transport"] == "fake":
                self.transport.connected = 0
                self.transport.disconnected = 0
            if scen.get("external_edit"):
                # between the sessions the file is edited (another program, a restored backup): node 90 now has level 77
                try:
                    with open(self.path, encoding="utf-8") as fil:
                        data = json.load(fil)
                    data["90"]["battery_level"] = 77
                    with open(self.path, "w", encoding="utf-8") as fil:
                        json.dump(data, fil)
                except Exception as err:  # noqa: BLE001
                    self.prior_error = "edit failed: " + type(err).__name__
        self.main = self.loop.create_task(self._main(), name="main")
        self.loop.settle()
        # loading happens before any concurrency exists (no saver yet): its file jobs complete at once
        guard = 0
        while guard < 50 and not self.inside and not self.main.done() and self.alive() == 0 and self.loop.pending_jobs():
            guard += 1
            j = self.loop.pending_jobs()[0]
            self.loop.run_job(j)
            self.loop.deliver_job(j)
            self.loop.settle()
        self.observe("start")

    async def _main(self) -> None:
        try:
            async with self.gateway:
                self.inside = True
                self.entered_at = self.loop.time()
                how = await self.body_future
                if how == "raise":
                    raise BodyError("body failed")
                if how == "eof":
                    # the peer closes the connection cleanly; the application's read fails with the transport's
                    # error and leaves the context through it
                    STREAM_STATE[id(self.transport)]["r"].feed_eof()
                    await self.gateway.transport.read()
        finally:
            self.inside = False

    # -- observation ----------------------------------------------------------------------
    def reg_ver(self) -> int:
        return sum(1 for n in self.gateway.nodes if n >= 100)

    def disk(self):
        try:
            with open(self.path, encoding="utf-8") as fil:
                text = fil.read()
        except FileNotFoundError:
            return -3   # no file
        if text == "":
            return -2   # empty
        try:
            data = json.loads(text)
            return sum(1 for k in data if int(k) >= 100)
        except Exception:  # noqa: BLE001
            return -1   # partial / unreadable

    def marks(self) -> tuple[int, int]:
        """Battery level of node 90 in the registry and in the file (-1: not there / unreadable)."""
        node = self.gateway.nodes.get(90)
        reg = node.battery_level if node is not None and isinstance(node.battery_level, int) else -1
        disk = -1
        try:
            with open(self.path, encoding="utf-8") as fil:
                val = json.load(fil)["90"]["battery_level"]
            disk = val if isinstance(val, int) else -1
        except Exception:  # noqa: BLE001
            pass
        return reg, disk

    def alive(self) -> int:
        return sum(1 for t in asyncio.all_tasks(self.loop) if not t.done() and t is not self.main)

    def observe(self, what: str, **extra) -> None:
        c, dcount = self.counters()
        ev = {"e": what, "t": int(self.loop.time()), "disk": self.disk(), "reg": self.reg_ver(), "inside": self.inside,
              "alive": self.alive(), "pending": len(self.loop.pending_jobs()), "connects": c, "disconnects": dcount,
              "main_done": self.main.done(), "owner": "", "kind": "", "mode": ""}
        ev["mark"], ev["dmark"] = self.marks()
        ev.update(extra)
        if ev["main_done"] and not self.saw_exit:
            self.saw_exit = True
            ev["exit_instant"] = True      # the first observation after the caller got control back
        else:
            ev["exit_instant"] = False
        self.events.append(ev)

    # -- commands -------------------------------------------------------------------------
    def _oldest(self, who: str):
        for j in self.loop.pending_jobs():
            owner = "main" if j.owner == "main" else "saver"
            if owner == who:
                return j
        return None

    def enabled(self) -> list[tuple]:
        cmds = []
        for who in ("main", "saver"):
            j = self._oldest(who)
            if j is None:
                continue
            if j.state == "queued":
                cmds.append(("job", who, "full"))
                if self.run_only_used < self.scen["max_run_only"]:
                    cmds.append(("job", who, "run"))
            else:
                cmds.append(("job", who, "deliver"))
        if getattr(self.transport, "connecting", False) and not self.main.done():
            cmds.append(("cancel",))
        if self.inside and not self.finished_body:
            cmds.append(("finish", self.scen["finish"]))
            if self.mutations < self.scen["max_mutations"] and (not self.events or self.events[-1]["e"] != "mutate"):
                cmds.append(("mutate",))
            if not self.loop.pending_jobs() and self.ticks < self.scen["max_ticks"]:
                cmds.append(("tick",))
        return cmds

    def do(self, cmd: tuple) -> bool:
        op = cmd[0]
        if op == "job":
            j = self._oldest(cmd[1])
            if j is None:
                return False
            desc = j.describe()
            mode = cmd[2]
            if mode in ("full", "run") and j.state == "queued":
                self.loop.run_job(j)
                if mode == "run":
                    self.run_only_used += 1
            if mode in ("full", "deliver") and j.state == "ran":
                self.loop.deliver_job(j)
            self.loop.settle()
            self.observe("job", owner=cmd[1], kind=desc["kind"], mode=mode)
        elif op == "finish":
            if self.finished_body or not self.inside:
                return False
            self.finished_body = True
            self.body_future.set_result(cmd[1])
            self.loop.settle()
            self.observe("finish", kind=cmd[1])
        elif op == "cancel":
            if not getattr(self.transport, "connecting", False) or self.main.done():
                return False
            self.main.cancel()
            self.loop.settle()
            self.observe("cancel")
        elif op == "mutate":
            if not self.inside:
                return False
            self.mutations += 1
            self.gateway.nodes[100 + self.mutations] = Node(100 + self.mutations, 17, "2.0")
            self.observe("mutate")
        elif op == "tick":
            nxt = self.loop.next_timer()
            if self.loop.pending_jobs():
                return False
            # to the next timer, or - when nothing is scheduled at all - ten minutes on: time passes anyway
            if nxt is None or nxt > self.loop.time() + 900:
                nxt = self.loop.time() + 600
            self.ticks += 1
            self.loop.advance_to(nxt)
            self.loop.settle()
            self.observe("tick")
        return True

    def finish(self) -> dict:
        """Complete everything that is still pending (oldest job first), then report."""
        guard = 0
        while guard < 200:
            guard += 1
            jobs = self.loop.pending_jobs()
            if jobs:
                j = jobs[0]
                who = "main" if j.owner == "main" else "saver"
                self.do(("job", who, "full" if j.state == "queued" else "deliver"))
                continue
            if self.inside and not self.finished_body:
                self.do(("finish", self.scen["finish"]))
                continue
            if getattr(self.transport, "connecting", False) and not self.main.done():
                self.do(("cancel",))
                continue
            break
        self.loop.settle()
        exc = "none"
        if not self.main.done():
            exc = "stuck"
        elif self.main.cancelled():
            exc = "Cancelled"
        elif self.main.exception() is not None:
            err = self.main.exception()
            exc = "Body" if isinstance(err, BodyError) else ("Transport" if isinstance(err, TransportError) else
                                                              ("Lib" if isinstance(err, AIOMySensorsError) else "Other:" + type(err).__name__))
        self.observe("end", kind=exc)
        for p in self.patches or []:
            p.stop()
        for t in asyncio.all_tasks(self.loop):
            t.cancel()
        try:
            self.loop.run_until_complete(asyncio.sleep(0))
        except BaseException:  # noqa: BLE001
            pass
        self.loop.close()
        return {"scen": self.scen, "events": self.events}


def run_schedule(job) -> dict:
    scen, cmds = job
    d = tempfile.mkdtemp(prefix="verif-life-")
    try:
        run = LifeRun(scen, d)
        skipped = 0
        for c in cmds:
            if not run.do(tuple(c)):
                skipped += 1
        res = run.finish()
        res["commands"] = [list(c) for c in cmds]
        res["drift"] = skipped
        return res
    finally:
        shutil.rmtree(d, ignore_errors=True)


def explore(job) -> list[dict]:
    scen, max_runs, max_depth = job
    out = []
    stack = [[]]
    while stack and len(out) < max_runs:
        prefix = stack.pop()
        d = tempfile.mkdtemp(prefix="verif-life-")
        try:
            run = LifeRun(scen, d)
            for c in prefix:
                run.do(c)
            en = run.enabled() if len(prefix) < max_depth else []
            if not en or run.main.done():
                res = run.finish()
                res["commands"] = [list(c) for c in prefix]
                res["drift"] = 0
                out.append(res)
            else:
                run.finish()
                for c in reversed(en):
                    stack.append(prefix + [c])
        finally:
            shutil.rmtree(d, ignore_errors=True)
    return out


def long_run(job) -> dict:
    """Cadence over a long virtual stretch: only ticks and immediate job completion."""
    scen, hours = job
    d = tempfile.mkdtemp(prefix="verif-life-")
    try:
        run = LifeRun(scen, d)
        cmds = []

        def drain():
            while run.loop.pending_jobs():
                j = run.loop.pending_jobs()[0]
                c = ("job", "main" if j.owner == "main" else "saver", "full")
                run.do(c)
                cmds.append(c)
        drain()
        k = 0
        while run.inside and run.loop.time() < hours * 3600:
            k += 1
            if k % 3 == 1:
                scen_mut = scen["max_mutations"]
                scen["max_mutations"] = 10 ** 6
                run.do(("mutate",))
                scen["max_mutations"] = scen_mut
                cmds.append(("mutate",))
            run.ticks = 0
            run.do(("tick",))
            cmds.append(("tick",))
            drain()
        res = run.finish()
        res["commands"] = [list(c) for c in cmds]
        res["drift"] = 0
        return res
    finally:
        shutil.rmtree(d, ignore_errors=True)


# ---------------------------------------------------------------------------------------


def scenarios(tier: str) -> list[dict]:
    out = []
    base = {"max_mutations": 1, "max_ticks": 1, "max_run_only": 1, "file": "existing"}
    for finish in ("ok", "raise"):
        out.append(dict(base, transport="fake", connect_fail=False, disconnect_fail=False, finish=finish))
    out.append(dict(base, transport="fake", connect_fail=False, disconnect_fail=True, finish="ok"))
    out.append(dict(base, transport="fake", connect_fail=False, disconnect_fail=True, finish="raise"))
    out.append(dict(base, transport="fake", connect_fail=True, disconnect_fail=False, finish="ok"))
    out.append(dict(base, transport="fake", connect_fail=False, connect_cancel=True, disconnect_fail=False, finish="ok"))
    out.append(dict(base, transport="fake", connect_fail=False, disconnect_fail=False, finish="ok", file="missing"))
    out.append(dict(base, transport="fake", connect_fail=False, disconnect_fail=False, finish="ok", prior_session=True, max_ticks=2))
    out.append(dict(base, transport="fake", connect_fail=False, disconnect_fail=False, finish="raise", prior_session=True, max_ticks=2, max_run_only=0))
    out.append(dict(base, transport="fake", connect_fail=False, disconnect_fail=False, finish="ok", prior_session=True, external_edit=True, max_ticks=1, max_run_only=0))
    out.append(dict(base, transport="fake", connect_fail=False, disconnect_fail=False, finish="ok", prior_session=True, prior_saver_died=True, max_ticks=1, max_run_only=0))
    for kind in ("tcp", "serial", "mqtt"):
        out.append(dict(base, transport=kind, connect_fail=False, disconnect_fail=False, finish="ok", max_run_only=0))
        out.append(dict(base, transport=kind, connect_fail=True, disconnect_fail=False, finish="ok", max_run_only=0))
        out.append(dict(base, transport=kind, connect_fail=False, disconnect_fail=True, finish="raise", max_run_only=0))
        if kind in ("tcp", "serial"):
            out.append(dict(base, transport=kind, connect_fail=False, disconnect_fail=False, finish="eof", max_run_only=0, max_ticks=1))
    if tier == "thorough":
        out.append(dict(base, transport="fake", connect_fail=False, disconnect_fail=False, finish="ok", max_ticks=2, max_mutations=2))
        out.append(dict(base, transport="fake", connect_fail=False, disconnect_fail=False, finish="raise", max_ticks=2, max_mutations=2))
    return out


def judge(runs: list, workdir: str, shards: int):
    import concurrent.futures

    def one(k):
        part = runs[k::shards]
        if not part:
            return [], 0
        path = os.path.join(workdir, f"life-runs-{k}.json")
        with open(path, "w") as fil:
            json.dump({"runs": [{"scen": {a: b for a, b in r["scen"].items() if a in ("connect_fail", "connect_cancel", "external_edit", "disconnect_fail", "finish", "transport")},
                                 "events": r["events"]} for r in part]}, fil)
        out = tlc.run(workdir, "LifecycleMonitor", "LifecycleMonitor.cfg", workers=1, env={"TRACE_FILE": path})
        os.unlink(path)
        summ = tlc.summary(out)
        ver = {int(a): b for a, b in re.findall(r'<<"VERDICT", (\d+), "([\w-]+)">>', out)}
        if summ["error"] or len(ver) != len(part):
            common.machinery_failure(f"LifecycleMonitor failed:\n{out[out.find('Error:'):][:2500] if 'Error:' in out else out[-2000:]}")
        return [ver[i + 1] for i in range(len(part))], summ["distinct"]

    with concurrent.futures.ThreadPoolExecutor(max_workers=shards) as pool:
        res = list(pool.map(one, range(shards)))
    verdicts = [None] * len(runs)
    for k, (vs, _) in enumerate(res):
        for j, v in enumerate(vs):
            verdicts[k + shards * j] = v
    return verdicts, sum(s for _, s in res)


def model_schedules(workdir: str, tier: str) -> tuple[list, dict]:
    out = tlc.run(workdir, "MC_lifecycle", "MC_lifecycle.cfg", workers=1)
    summ = tlc.summary(out)
    if summ["violated"] or summ["error"] or not summ["distinct"]:
        common.machinery_failure(f"Lifecycle.tla: the model violates its reference invariants or TLC failed:\n{out[-3000:]}")
    scheds = []
    seen = set()
    for line in out.splitlines():
        if line.startswith('<<"SCHEDULE"'):
            txt = json.loads(line[len('<<"SCHEDULE", '):-2])
            if txt not in seen:
                seen.add(txt)
                scheds.append(json.loads(txt))
    return scheds, summ


def concretise(s: dict) -> tuple[dict, list]:
    scen = {"transport": "fake", "connect_fail": s["connectFails"] == "fail", "connect_cancel": s["connectFails"] == "cancel",
            "disconnect_fail": s["disconnectFails"],
            "finish": "raise" if s["bodyRaises"] else "ok", "max_mutations": 9, "max_ticks": 9, "max_run_only": 9, "file": "existing"}
    cmds = []
    for a in s["hist"]:
        if a[0] == "job":
            cmds.append(("job", a[1], a[2]))
        elif a[0] == "finish":
            cmds.append(("finish", scen["finish"]))
        elif a[0] == "mutate":
            cmds.append(("mutate",))
        elif a[0] == "tick":
            cmds.append(("tick",))
        elif a[0] == "cancel":
            cmds.append(("cancel",))
    return scen, cmds


def check(prop: str) -> int:
    common.enter_scratch()
    tier = common.tier()
    rep = common.Report("C16", tier)
    workdir = tlc.scratch()
    try:
        tlc.stage(workdir)
        scheds, summ = model_schedules(workdir, tier)
        rep.add_tlc("MC_lifecycle (main / saver / file jobs, StopMode = event)", summ, {"schedules_emitted": len(scheds)})
        jobs = [concretise(s) for s in scheds]
        ctx = multiprocessing.get_context("fork")
        with ctx.Pool(16, initializer=common.limit_worker) as pool:
            runs = pool.map(run_schedule, jobs, chunksize=16)
            n_model = len(runs)
            ejobs = [(sc, 1500 if tier == "quick" else 8000, 14 if tier == "quick" else 18) for sc in scenarios(tier)]
            for part in pool.map(explore, ejobs, chunksize=1):
                runs.extend(part)
            ljobs = [(dict(transport=k, connect_fail=False, disconnect_fail=False, finish="ok", max_mutations=0, max_ticks=0,
                           max_run_only=0, file="existing"), 3 if tier == "quick" else 24) for k in ("fake", "tcp", "mqtt")]
            runs.extend(pool.map(long_run, ljobs, chunksize=1))
        verdicts, states = judge(runs, workdir, 12)
        rep.cov["states"] += states
        rep.cov["transitions"] += states
        rep.add_traces(len(runs))
        rep.cov["evaluations"] = len(runs)
        rep.cov["model_schedules_replayed"] = n_model
        rep.cov["model_drift_commands_skipped"] = sum(r["drift"] for r in runs)
        rep.cov["distinct_nontrivial"] = len({json.dumps([r["scen"], r["commands"]], sort_keys=True) for r in runs if r["commands"]})
        rep.cov["rule"] = "schedules = those emitted by TLC from Lifecycle.tla + depth-first enumeration of the real code's choice points per scenario (transport kind x connect/disconnect fault x body outcome x file present/missing) + long virtual stretches; distinct by (scenario, commands)"
        mid = runs[len(runs) // 2]
        rep.sample({"scenario": mid["scen"], "commands": mid["commands"], "end": mid["events"][-1]})
        for r, v in zip(runs, verdicts):
            if v != "ok":
                rep.violation({"verdict": v, "transport": r["scen"]["transport"], "connect_fail": r["scen"]["connect_fail"],
                               "disconnect_fail": r["scen"]["disconnect_fail"], "finish": r["scen"]["finish"]},
                              {"kind": "lifecycle-run", "scen": r["scen"], "commands": r["commands"], "events": r["events"]},
                              f"{v}: scenario {json.dumps(r['scen'])} commands {json.dumps(r['commands'])[:400]} end {json.dumps(r['events'][-1])}")
        rep.assumptions += ["thread-pool jobs (aiofiles) are completed by the harness; a job may run before its result is delivered",
                            "the cadence is measured in virtual time with file operations completed at the instant they are issued",
                            "sockets, serial ports and the broker are fakes directly beneath the library's transports"]
        return rep.finish()
    finally:
        shutil.rmtree(workdir, ignore_errors=True)


def replay(doc: dict) -> int:
    common.enter_scratch()
    res = run_schedule((doc["scen"], [tuple(c) for c in doc["commands"]]))
    work = tlc.scratch()
    try:
        tlc.stage(work)
        verdicts, _ = judge([res], work, 1)
    finally:
        shutil.rmtree(work, ignore_errors=True)
    print("end:", json.dumps(res["events"][-1]), "verdict:", verdicts[0])
    if verdicts[0] != "ok":
        print("VIOLATION property=C16 replay=(this file)")
        return 1
    return 0
