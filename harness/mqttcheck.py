"""C18: MQTT transport, decided with spec/Mqtt.tla.

spec -> code: TLC explores Mqtt.tla (prefixes with and without '/', deliveries with ';', '/',
non-ASCII, undecodable payloads and broker errors, reads interleaved with deliveries,
connect / subscribe / publish faults, disconnect at every point), checks Fifo,
SubscriptionsCoverInTopics, EchoRoundTrip and (with fairness) NeverDeaf, and emits one history
per abstract transition; each is replayed on the real MQTTClient over a fake aiomqtt client.
code -> spec: recorded operations (also of random scenarios and of a minimal MQTTTransport
subclass using the documented receive hooks) are judged by TLC against MqttTrace.tla.
"""
from __future__ import annotations

import asyncio
import json
import multiprocessing
import os
import random
import re
import shutil

from aiomqtt import MqttError

from aiomysensors.exceptions import TransportError
from aiomysensors.transport import mqtt as mqtt_mod

from . import common, tlc


def cps(s: str) -> list[int]:
    return [ord(c) for c in s]


class _Topic:
    def __init__(self, value: str) -> None:
        self.value = value


class _Msg:
    def __init__(self, topic: str, payload: bytes) -> None:
        self.topic = _Topic(topic)
        self.payload = payload


class FakeAioMqtt:
    """Stand-in for aiomqtt.Client directly beneath MQTTClient."""

    current = None
    connect_fault = False

    def __init__(self, *args, **kwargs) -> None:
        self.queue: asyncio.Queue = asyncio.Queue()
        self.published: list = []
        self.subscribed: list = []
        self.subscribe_fault = False
        self.publish_fault = False
        self.exited = False
        FakeAioMqtt.current = self

    async def __aenter__(self):
        if FakeAioMqtt.connect_fault:
            raise MqttError("injected connect failure")
        return self

    exit_fault = False

    async def __aexit__(self, *exc):
        self.exited = True
        if FakeAioMqtt.exit_fault:
            raise MqttError("injected: the broker connection was already gone")
        return None

    async def publish(self, topic, payload=None, qos=0, retain=False, **kw):
        if self.publish_fault:
            raise MqttError("injected publish failure")
        self.published.append({"topic": topic, "payload": payload, "qos": qos, "retain": retain})

    async def subscribe(self, topic, qos=0, **kw):
        if self.subscribe_fault:
            raise MqttError("injected subscribe failure")
        self.subscribed.append((topic, qos))

    @property
    def messages(self):
        return self

    def __aiter__(self):
        return self

    async def __anext__(self):
        item = await self.queue.get()
        if isinstance(item, BaseException):
            raise item
        return item


class Minimal(mqtt_mod.MQTTTransport):
    """The documented extension point: a subclass that feeds _receive / _receive_error."""

    def __init__(self, **kw) -> None:
        super().__init__(**kw)
        self.published: list = []
        self.subscribed: list = []

    async def _connect(self) -> None:
        return None

    async def _disconnect(self) -> None:
        return None

    async def _publish(self, topic: str, payload: str, qos: int) -> None:
        self.published.append({"topic": topic, "payload": payload, "qos": qos})

    async def _subscribe(self, topic: str, qos: int) -> None:
        self.subscribed.append((topic, qos))


def res_of(err) -> str:
    return "terr" if isinstance(err, TransportError) else "other:" + type(err).__name__


class MqttRun:
    def __init__(self, kind: str, inp: str, outp: str) -> None:
        self.loop = asyncio.new_event_loop()
        self.kind = kind
        self.inp, self.outp = inp, outp
        self.events: list[dict] = []
        self.reads: dict[int, asyncio.Task] = {}
        self.nread = 0
        mqtt_mod.AsyncioClient = FakeAioMqtt
        FakeAioMqtt.connect_fault = False
        FakeAioMqtt.current = None
        if kind == "client":
            self.tr = mqtt_mod.MQTTClient("broker.invalid", 1883, in_prefix=inp, out_prefix=outp)
        else:
            self.tr = Minimal(in_prefix=inp, out_prefix=outp)
        self.dead = False

    @property
    def fake(self):
        return FakeAioMqtt.current

    def call(self, coro) -> str:
        task = self.loop.create_task(coro)
        for _ in range(20):
            self.loop.run_until_complete(asyncio.sleep(0))
            if task.done():
                break
        if not task.done():
            task.cancel()
            self.loop.run_until_complete(asyncio.sleep(0))
            return "other:blocked"
        try:
            task.result()
            return "ok"
        except asyncio.CancelledError:
            return "other:CancelledError"
        except BaseException as err:  # noqa: BLE001
            return res_of(err)

    def settle(self) -> None:
        for _ in range(6):
            self.loop.run_until_complete(asyncio.sleep(0))
        for rid, task in list(self.reads.items()):
            if task.done():
                del self.reads[rid]
                ev = {"op": "read_done", "id": rid, "res": "", "s": []}
                try:
                    val = task.result()
                    if isinstance(val, str):
                        ev["res"], ev["s"] = "line", cps(val)
                    else:
                        ev["res"] = "other:returned " + type(val).__name__
                except asyncio.CancelledError:
                    ev["res"] = "other:CancelledError"
                except BaseException as err:  # noqa: BLE001
                    ev["res"] = res_of(err)
                self.events.append(ev)

    def do(self, cmd: list) -> None:
        op = cmd[0]
        if op == "connect":
            how = cmd[1]
            FakeAioMqtt.connect_fault = (how == "connect-fails")
            if how == "subscribe-fails":
                orig = FakeAioMqtt.subscribe

                async def failing(self_, topic, qos=0, **kw):
                    raise MqttError("injected subscribe failure")

                FakeAioMqtt.subscribe = failing
                if self.kind != "client":
                    async def failing2(topic, qos):
                        raise TransportError("injected subscribe failure")
                    self.tr._subscribe = failing2
                try:
                    res = self.call(self.tr.connect())
                finally:
                    FakeAioMqtt.subscribe = orig
            elif how == "connect-fails" and self.kind != "client":
                async def failing3():
                    raise TransportError("injected connect failure")
                self.tr._connect = failing3
                res = self.call(self.tr.connect())
            else:
                res = self.call(self.tr.connect())
            FakeAioMqtt.connect_fault = False
            subs = self.fake.subscribed if (self.kind == "client" and self.fake) else getattr(self.tr, "subscribed", [])
            self.events.append({"op": "connect", "fault": "none" if how == "ok" else how, "res": res,
                                "subs": [[cps(lv) for lv in t.split("/")] for t, _q in subs] if how == "ok" else []})
        elif op == "broker_msg":
            topic, payload = cmd[1], bytes(cmd[2])
            if self.dead:
                return
            if self.kind == "client":
                if self.fake is None:
                    return
                self.fake.queue.put_nowait(_Msg(topic, payload))
            else:
                try:
                    text = payload.decode()
                except UnicodeDecodeError as err:
                    text = None
                try:
                    if text is None:
                        # the documented hook takes text: a client implementation reports the failure through _receive_error
                        self.tr._receive_error(TransportError("undecodable payload"))
                    else:
                        self.tr._receive(topic, text)
                except BaseException as err:  # noqa: BLE001 - the receive hook itself failed: the message is lost
                    self.events.append({"op": "receive_hook_failed", "res": "other:" + type(err).__name__})
                    return
            self.events.append({"op": "broker_msg", "topic": [cps(lv) for lv in topic.split("/")], "bytes": list(payload)})
        elif op == "broker_error":
            if self.dead:
                return
            if self.kind == "client":
                if self.fake is None:
                    return
                self.fake.queue.put_nowait(MqttError("injected broker error"))
            else:
                self.tr._receive_error(TransportError("injected broker error"))
            self.dead = True
            self.events.append({"op": "broker_error"})
        elif op == "cancel_read":
            # the application gives up waiting (a timeout around read): nothing that arrives later may be lost to it
            if not self.reads:
                return
            rid, task = next(iter(self.reads.items()))
            if task.done():
                return
            task.cancel()
            try:
                self.loop.run_until_complete(task)
            except BaseException:  # noqa: BLE001
                pass
            del self.reads[rid]
            self.events.append({"op": "read_cancelled", "id": rid})
        elif op == "read":
            if self.reads:
                return
            self.nread += 1
            self.reads[self.nread] = self.loop.create_task(self.tr.read())
            self.events.append({"op": "read_start", "id": self.nread})
        elif op == "write":
            line, ok = cmd[1], cmd[2]
            target = self.fake if self.kind == "client" else self.tr
            if target is None:
                return
            before = len(target.published)
            if not ok:
                if self.kind == "client":
                    self.fake.publish_fault = True
                else:
                    async def failing4(topic, payload, qos):
                        raise TransportError("injected publish failure")
                    self.tr._publish = failing4
            res = self.call(self.tr.write(line))
            if self.kind == "client":
                self.fake.publish_fault = False
            elif not ok:
                del self.tr._publish  # back to the class's method
            pubs = target.published[before:]
            ev = {"op": "write", "s": cps(line), "fault": "none" if ok else "publish", "res": res, "topic": [], "payload": [], "qos": -1}
            if len(pubs) == 1:
                pay = pubs[0]["payload"]
                if isinstance(pay, bytes):
                    pay = pay.decode("utf-8", "replace")
                ev.update(topic=[cps(lv) for lv in pubs[0]["topic"].split("/")], payload=cps(pay or ""), qos=pubs[0]["qos"])
            elif ok and res == "ok":
                ev["res"] = f"other:{len(pubs)} publishes"
            self.events.append(ev)
        elif op == "disconnect":
            if len(cmd) > 1 and cmd[1] == "broker-gone" and self.kind == "client":
                FakeAioMqtt.exit_fault = True       # leaving the broker client's context fails: absorbed by the transport
                try:
                    res = self.call(self.tr.disconnect())
                finally:
                    FakeAioMqtt.exit_fault = False
            else:
                res = self.call(self.tr.disconnect())
            self.events.append({"op": "disconnect", "res": res})
        self.settle()

    def finish(self) -> dict:
        self.settle()
        self.events.append({"op": "end"})
        for t in asyncio.all_tasks(self.loop):
            t.cancel()
        self.loop.run_until_complete(asyncio.sleep(0))
        self.loop.close()
        return {"kind": self.kind, "inp": [cps(x) for x in self.inp.split("/")], "outp": [cps(x) for x in self.outp.split("/")],
                "events": self.events}


def run_commands(job) -> dict:
    kind, inp, outp, cmds = job
    run = MqttRun(kind, inp, outp)
    for c in cmds:
        run.do(c)
    res = run.finish()
    res["commands"] = cmds
    res["prefixes"] = [inp, outp]
    return res


def concretise(cover: dict) -> tuple:
    inp = "/".join(cover["prefix"][0])
    outp = "/".join(cover["prefix"][1])
    cmds = []
    for h in cover["hist"]:
        op = h[0]
        if op == "connect":
            cmds.append(["connect", h[1]])
        elif op == "deliver":
            d = h[1]
            if d["k"] == "error":
                cmds.append(["broker_error"])
            else:
                cmds.append(["broker_msg", inp + "/" + "/".join(d["f"]), d["p"]])
        elif op == "read":
            cmds.append(["read"])
        elif op == "write":
            cmds.append(["write", "".join(chr(c) for c in h[1]), bool(h[2])])
        elif op == "disconnect":
            cmds.append(["disconnect"])
    return inp, outp, cmds


def random_jobs(rnd: random.Random, n: int) -> list:
    jobs = []
    pays = [b"", b"1", b"a;b;c", b"lat;lon", b"x/y", "é".encode(), "日本".encode(), b"\xff\xfe", b"\xc3", b" lead", b"55.7;12.5;30"]
    for k in range(n):
        inp = rnd.choice(["mygateway1-out", "p", "a/b", "home/ms/out"])
        outp = rnd.choice(["mygateway1-in", "q", "c/d", "home/ms/in"])
        cmds = [["connect", "ok"]]
        for _ in range(rnd.randint(1, 12)):
            r = rnd.random()
            n_, c_, cmd_ = rnd.choice([0, 1, 254, 255]), rnd.choice([0, 1, 255]), rnd.randint(0, 4)
            a_, t_ = rnd.randint(0, 1), rnd.choice([0, 2, 17, 49])
            if cmd_ in (3, 4):
                c_ = 255
            if c_ == 255 and cmd_ in (1, 2):
                c_ = 1
            if r < 0.4:
                cmds.append(["broker_msg", f"{inp}/{n_}/{c_}/{cmd_}/{a_}/{t_}", list(rnd.choice(pays))])
            elif r < 0.75:
                cmds.append(["read"])
            elif r < 0.9:
                pay = rnd.choice(["", "1", "a;b", "é", "x/y", "55.7;12.5;30", " lead", "a; b ;c", "\tt", "  "[0:1] + "x y"])
                cmds.append(["write", f"{n_};{c_};{cmd_};{a_};{t_};{pay}\n", rnd.random() < 0.85])
            elif r < 0.95:
                cmds.append(["broker_error"])
        if k % 40 == 7:   # a burst of broker messages nobody reads meanwhile, then all are read
            burst = rnd.choice([30, 120, 260])
            cmds = [["connect", "ok"]] + [["broker_msg", f"{inp}/1/1/1/0/2", list(str(i).encode())] for i in range(burst)]
            cmds += [["read"]] * (burst + 1)
        if k % 40 in (4, 14):
            # a read that is cancelled while nothing has arrived; what arrives afterwards reaches the next reads
            t1, t2 = f"{inp}/1/1/1/0/2", f"{inp}/2/1/1/1/0"
            cmds = [["connect", "ok"], ["read"], ["cancel_read"], ["broker_msg", t1, list(b"one")], ["broker_msg", t2, list(b"\xff")],
                    ["broker_msg", t2, list(b"three")], ["read"], ["read"], ["read"]]
            if k % 40 == 14:
                cmds = [["connect", "ok"], ["broker_msg", t1, list(b"zero")], ["read"], ["read"], ["cancel_read"], ["read"], ["cancel_read"],
                        ["broker_msg", t1, list(b"one")], ["read"], ["broker_error"], ["read"]]
        if k % 40 == 24:
            # the disconnect meets a broker that is already gone (absorbed); the same object connects again and works
            t1 = f"{inp}/1/1/1/0/2"
            cmds = [["connect", "ok"], ["broker_msg", t1, list(b"1")], ["read"], ["disconnect", "broker-gone"], ["connect", "ok"],
                    ["broker_msg", t1, list(b"2")], ["read"], ["write", "1;1;1;0;2; lead\n", True]]
        if k % 40 in (9, 19, 29):
            # the same transport object is disconnected and connected again: what was received and not yet read is
            # still delivered, in order, exactly once; a read that was already waiting gets the next message
            t1, t2 = f"{inp}/1/1/1/0/2", f"{inp}/2/1/1/1/0"
            if k % 40 == 9:
                cmds = [["connect", "ok"], ["broker_msg", t1, list(b"first")], ["broker_msg", t2, list(b"second;x")], ["disconnect"],
                        ["connect", "ok"], ["read"], ["read"], ["broker_msg", t1, list(b"third")], ["read"]]
            elif k % 40 == 19:
                cmds = [["connect", "ok"], ["read"], ["disconnect"], ["connect", "ok"], ["broker_msg", t1, list(b"after")],
                        ["broker_msg", t2, list(b"later")], ["read"]]
            else:
                cmds = [["connect", "ok"], ["broker_msg", t1, list(b"1")], ["read"], ["broker_msg", t2, list(b"2")], ["disconnect"],
                        ["connect", "ok"], ["broker_msg", t1, list(b"3")], ["read"], ["read"], ["disconnect"], ["connect", "ok"], ["read"],
                        ["broker_msg", t2, list(b"4")]]
        if rnd.random() < 0.6:
            cmds.append(["disconnect"])
        jobs.append(("client" if k % 3 else "minimal", inp, outp, cmds))
    return jobs


def judge(runs: list, workdir: str, shards: int):
    import concurrent.futures

    def one(k):
        part = runs[k::shards]
        if not part:
            return {}, 0
        path = os.path.join(workdir, f"mqtt-runs-{k}.json")
        with open(path, "w") as fil:
            json.dump({"runs": [{"inp": r["inp"], "outp": r["outp"], "events": [_norm(e) for e in r["events"]]} for r in part]}, fil)
        out = tlc.run(workdir, "MqttTrace", "MqttTrace.cfg", workers=1, env={"TRACE_FILE": path})
        os.unlink(path)
        summ = tlc.summary(out)
        if summ["error"] or summ["violated"]:
            common.machinery_failure(f"MqttTrace failed:\n{out[out.find('Error:'):][:2500]}")
        ver = {}
        for a, b in re.findall(r'<<"REJECT", (\d+), (\d+)>>', out):
            ver[int(a)] = ("reject", int(b))
        for a in re.findall(r'<<"ACCEPT", (\d+)>>', out):
            ver[int(a)] = ("accept", None)
        if len(ver) != len(part):
            common.machinery_failure(f"MqttTrace gave {len(ver)} verdicts for {len(part)} runs:\n{out[-1500:]}")
        return ver, summ["distinct"]

    with concurrent.futures.ThreadPoolExecutor(max_workers=shards) as pool:
        res = list(pool.map(one, range(shards)))
    verdicts = [None] * len(runs)
    for k, (ver, _) in enumerate(res):
        for j, v in ver.items():
            verdicts[k + shards * (j - 1)] = v
    return verdicts, sum(s for _, s in res)


def _norm(e: dict) -> dict:
    base = {"op": "", "fault": "none", "res": "", "subs": [], "topic": [], "bytes": [], "id": 0, "s": [], "payload": [], "qos": -1}
    base.update(e)
    return base


def check(prop: str) -> int:
    common.enter_scratch()
    tier = common.tier()
    rep = common.Report("C18", tier)
    rnd = random.Random(common.seed() * 18 + 18)
    workdir = tlc.scratch()
    try:
        tlc.stage(workdir)
        cfg = open(os.path.join(workdir, "MC_mqtt.cfg")).read()
        if tier == "thorough":
            cfg = cfg.replace("MaxDeliveries = 2", "MaxDeliveries = 3").replace("MaxReads = 2", "MaxReads = 3")
        with open(os.path.join(workdir, "MC_mqtt_run.cfg"), "w") as fil:
            fil.write(cfg)
        out = tlc.run(workdir, "MC_mqtt", "MC_mqtt_run.cfg", workers=1)
        summ = tlc.summary(out)
        if summ["violated"] or summ["error"] or not summ["distinct"]:
            common.machinery_failure(f"Mqtt.tla failed:\n{out[-3000:]}")
        covers, seen = [], set()
        for line in out.splitlines():
            if line.startswith('<<"COVER"'):
                txt = json.loads(line[len('<<"COVER", '):-2])
                if txt not in seen:
                    seen.add(txt)
                    covers.append(json.loads(txt))
        rep.add_tlc("MC_mqtt", summ, {"histories_emitted": len(covers)})
        live = tlc.run(workdir, "MC_mqtt", "MC_mqtt_live.cfg", workers=8)
        ls = tlc.summary(live)
        if ls["violated"] or ls["error"]:
            common.machinery_failure(f"Mqtt.tla liveness NeverDeaf failed in the model:\n{live[-2000:]}")
        rep.add_tlc("MC_mqtt_live (NeverDeaf under weak fairness)", ls)
        jobs = []
        for k, c in enumerate(covers):
            inp, outp, cmds = concretise(c)
            jobs.append(("client", inp, outp, cmds))
        jobs += random_jobs(rnd, 1500 if tier == "quick" else 15000)
        ctx = multiprocessing.get_context("fork")
        with ctx.Pool(16, initializer=common.limit_worker) as pool:
            runs = pool.map(run_commands, jobs, chunksize=64)
        verdicts, states = judge(runs, workdir, 12)
        rep.cov["states"] += states
        rep.cov["transitions"] += states
        rep.add_traces(len(runs))
        rep.cov["evaluations"] = len(runs)
        rep.cov["distinct_nontrivial"] = len({json.dumps([r["prefixes"], r["commands"]]) for r in runs if len(r["commands"]) > 1})
        rep.cov["rule"] = "histories = TLC transition covers of Mqtt.tla + random scenarios (client over a fake aiomqtt client, and a minimal MQTTTransport subclass); distinct by (prefixes, commands)"
        rep.sample({"prefixes": runs[len(runs) // 2]["prefixes"], "commands": runs[len(runs) // 2]["commands"]})
        for r, v in zip(runs, verdicts):
            if v[0] == "reject":
                e = r["events"][v[1] - 1]
                rep.violation({"op": e["op"], "res": e.get("res", "")},
                              {"kind": "mqtt-run", "transport": r["kind"], "prefixes": r["prefixes"], "commands": r["commands"], "events": r["events"], "rejected_at": v[1]},
                              f"MQTT {r['kind']}: event {v[1]} {json.dumps(e)[:300]} is not allowed by the reference; prefixes {r['prefixes']} commands {json.dumps(r['commands'])[:300]}")
        rep.assumptions += ["the broker and aiomqtt.Client are replaced by a fake directly beneath MQTTClient; MQTT wildcard semantics are those of the OASIS text",
                            "after a broker error no further broker messages are delivered (the connection is gone)"]
        return rep.finish()
    finally:
        shutil.rmtree(workdir, ignore_errors=True)


def replay(doc: dict) -> int:
    common.enter_scratch()
    run = run_commands((doc["transport"], doc["prefixes"][0], doc["prefixes"][1], doc["commands"]))
    work = tlc.scratch()
    try:
        tlc.stage(work)
        verdicts, _ = judge([run], work, 1)
    finally:
        shutil.rmtree(work, ignore_errors=True)
    print("events:", json.dumps(run["events"])[:1500])
    if verdicts[0][0] == "reject":
        print(f"VIOLATION property={doc.get('property', 'C18')} replay=(this file)")
        return 1
    print("accepted by the reference")
    return 0
