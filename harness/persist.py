"""C13 / C14: persistence round trip and load robustness, decided with spec/Persist.tla.

C13  registries are built THROUGH the real handlers (TLC-emitted histories of the registry and
     absurd-payload focus configurations, so boundary payloads are included) and constructed
     directly at random; each is saved by the real Persistence.save to a real file and loaded
     by the real load into an empty registry, also after rewriting the file into the legacy
     pymysensors layout.  TLC (PersistTrace.tla) judges: the file denotes the registry, the
     loaded registry equals it, the registry passes the validators load declares.
C14  TLC enumerates the mutation grammar over a valid file (MC_persist_shapes.tla); the harness
     adds byte-level classes (every prefix of valid files, undecodable bytes, empty, missing);
     each content is loaded through Persistence.load and Gateway.__aenter__; TLC judges the
     outcome alphabet {ok, read error} and, for contents of the exact layout, the loaded registry.
"""
from __future__ import annotations

import asyncio
import json
import multiprocessing
import os
import random
import re
import shutil
import tempfile

from aiomysensors import Gateway
from aiomysensors.exceptions import PersistenceReadError, PersistenceWriteError
from aiomysensors.gateway import Config
from aiomysensors.model.node import Node

from . import common, corecheck, gwdriver, tlc
from .gwdriver import FakeTransport, proj

BIG = gwdriver.BIG


def tag(x):
    """Python JSON value -> tagged value of Persist.tla."""
    if x is None:
        return {"j": "null"}
    if isinstance(x, bool):
        return {"j": "bool", "v": x}
    if isinstance(x, int):
        return {"j": "int", "v": x} if -BIG < x < BIG else {"j": "int", "v": f"BIG:{x}"}
    if isinstance(x, float):
        return {"j": "num"}
    if isinstance(x, str):
        return {"j": "str", "v": x}
    if isinstance(x, list):
        return {"j": "arr", "v": [tag(y) for y in x]}
    if isinstance(x, dict):
        members = []
        values_map = all(isinstance(v, str) for v in x.values())
        for k, v in x.items():
            if re.fullmatch(r"0|-?[1-9]\d{0,8}", k):
                members.append([k, tag(v), int(k), True])
            elif values_map and re.fullmatch(r"-?[1-9]\d{9,40}", k):
                members.append([k, tag(v), f"BIG:{k}", True])  # huge value type numbers are legal
            else:
                members.append([k, tag(v), -1, False])
        return {"j": "obj", "v": members}
    raise TypeError(type(x))


def untag(t):
    j = t["j"]
    if j == "null":
        return None
    if j in ("bool", "str"):
        return t["v"]
    if j == "int":
        return t["v"]
    if j == "num":
        return 1.5
    if j == "arr":
        return [untag(y) for y in t["v"]]
    return {m[0]: untag(m[1]) for m in t["v"]}


def parse_pairs(text: str):
    """json.loads keeping duplicate keys detectable (object_pairs_hook)."""
    dup = []

    def hook(pairs):
        keys = [k for k, _ in pairs]
        if len(set(keys)) != len(keys):
            dup.append(keys)
        return dict(pairs)

    val = json.loads(text, object_pairs_hook=hook)
    return val, bool(dup)


def to_legacy(native: dict) -> dict | None:
    """Rewrite a native file into the pymysensors layout; None if the registry has no legacy form."""
    out = {}
    for key, nd in native.items():
        if nd.get("sleeping"):
            return None  # the legacy layout has no sleeping flag
        ch = {}
        for ck, cd in nd["children"].items():
            ch[ck] = {"id": cd["child_id"], "type": cd["child_type"], "description": cd["description"], "values": cd["values"]}
        out[key] = {"sensor_id": nd["node_id"], "children": ch,
                    "type": None if (nd["node_type"] == 18 and nd["node_id"] % 2 == 0) else nd["node_type"],
                    "sketch_name": None if (nd["sketch_name"] == "" and nd["node_id"] % 2) else nd["sketch_name"],
                    "sketch_version": nd["sketch_version"], "battery_level": nd["battery_level"],
                    "protocol_version": nd["protocol_version"], "heartbeat": nd["heartbeat"]}
    return out


def _new_gateway(path: str) -> Gateway:
    tr = FakeTransport()
    gw = Gateway(tr, Config(persistence_file=path))
    tr.gateway = gw
    return gw


def _load(loop, path: str, via_context: bool, via_argument: bool = False):
    gw = _new_gateway(path)
    try:
        if via_argument:
            # load(path): the file is named by the argument; the object's own file is another one (an empty registry)
            own = path + ".own"
            with open(own, "w", encoding="utf-8") as fil:
                fil.write("{}")
            gw = _new_gateway(own)
            try:
                loop.run_until_complete(asyncio.wait_for(gw.persistence.load(path), 20))
                # importing a file does not change where the registry is saved: the next save goes to the object's own file
                with open(path, "rb") as fil:
                    imported = fil.read()
                loop.run_until_complete(asyncio.wait_for(gw.persistence.save(), 20))
                with open(path, "rb") as fil:
                    untouched = fil.read() == imported
                with open(own, "rb") as fil:
                    own_holds = json.loads(fil.read().decode("utf-8") or "{}")
                if not untouched or (gw.nodes and not own_holds):
                    return "other:save after load(path) went to the imported file", proj(gw)["nodes"]
            finally:
                os.unlink(own)
        elif via_context:
            async def enter():
                async with gw:
                    pass
            loop.run_until_complete(asyncio.wait_for(enter(), 20))
        else:
            loop.run_until_complete(asyncio.wait_for(gw.persistence.load(), 20))
        return "ok", proj(gw)["nodes"]
    except PersistenceReadError:
        return "readerror", proj(gw)["nodes"]
    except BaseException as err:  # noqa: BLE001
        return "other:" + type(err).__name__, proj(gw)["nodes"]


def snapshot_case(loop, d: str, gw: Gateway, k: int) -> dict:
    """save() runs as a task while the registry keeps changing (every node at every step of the loop):
    the file must hold one of the registries that existed while the save ran, never a mixture."""
    import time as _time
    path = os.path.join(d, f"snap-{k}.json")
    from aiomysensors.persistence import Persistence
    pers = Persistence(gw.nodes, path)
    for node in gw.nodes.values():      # generation 0 (the fields that change are small integers in every state)
        node.heartbeat = 1000
        node.battery_level = 0
    case = {"kind": "snapshot", "states": [proj(gw)["nodes"]], "saveRes": "ok", "loadRes": "", "file": {"j": "null"}, "loaded": []}
    task = loop.create_task(pers.save())
    gen = 0
    for _ in range(20000):
        loop.run_until_complete(asyncio.sleep(0))
        if task.done():
            break
        if gen < 24:
            gen += 1
            for node in gw.nodes.values():
                node.heartbeat = 1000 + gen
                node.battery_level = gen
            case["states"].append(proj(gw)["nodes"])
        else:
            _time.sleep(0.0005)
    try:
        loop.run_until_complete(asyncio.wait_for(task, 10))
    except BaseException as err:  # noqa: BLE001
        case["saveRes"] = "other:" + type(err).__name__
        return case
    try:
        with open(path, encoding="utf-8") as fil:
            native, dup = parse_pairs(fil.read())
        case["file"] = tag(native) if not dup else {"j": "null"}
    except BaseException as err:  # noqa: BLE001
        case["saveRes"] = "unreadable-file:" + type(err).__name__
        return case
    case["loadRes"], case["loaded"] = _load(loop, path, via_context=False)
    os.unlink(path)
    return case


def roundtrip_case(loop, d: str, gw: Gateway, k: int, prior_text: str | None = None) -> dict:
    path = os.path.join(d, f"rt-{k}.json")
    gw.persistence = None
    from aiomysensors.persistence import Persistence
    pers = Persistence(gw.nodes, path)
    case = {"kind": "roundtrip", "reg": proj(gw)["nodes"], "saveRes": "ok", "loadRes": "", "file": {"j": "null"},
            "loaded": [], "hasLegacy": False, "legacy": {"j": "null"}, "loadLegacyRes": "", "loadedLegacy": [],
            "prior_bytes": -1 if prior_text is None else len(prior_text.encode("utf-8"))}
    if prior_text is not None:
        # the file already holds an earlier (often longer) save: save replaces it entirely
        with open(path, "w", encoding="utf-8") as fil:
            fil.write(prior_text)
    try:
        loop.run_until_complete(asyncio.wait_for(pers.save(), 20))
    except BaseException as err:  # noqa: BLE001
        case["saveRes"] = "other:" + type(err).__name__
        return case
    try:
        with open(path, encoding="utf-8") as fil:
            text = fil.read()
        native, dup = parse_pairs(text)
        case["file"] = tag(native) if not dup else {"j": "null"}
    except BaseException as err:  # noqa: BLE001
        case["saveRes"] = "unreadable-file:" + type(err).__name__
        return case
    case["text"] = text
    case["loadRes"], case["loaded"] = _load(loop, path, via_context=(k % 4 == 0), via_argument=(k % 4 == 1))
    leg = to_legacy(native) if isinstance(native, dict) else None
    if leg is not None:
        lpath = os.path.join(d, f"rt-{k}-legacy.json")
        with open(lpath, "w", encoding="utf-8") as fil:
            json.dump(leg, fil)
        case["hasLegacy"] = True
        case["legacy"] = tag(leg)
        case["loadLegacyRes"], case["loadedLegacy"] = _load(loop, lpath, via_context=False)
        os.unlink(lpath)
    os.unlink(path)
    return case


# ---------------------------------------------------------------------------------------
# registries

TEXTS = ["", "a", "GPS Sensor", "é", "x;y", "日本", " lead", "q" * 300, "\"quoted\"", "back\\slash", "\U0001f600"]


def random_registry(rnd: random.Random) -> list:
    nodes = []
    for nid in sorted(rnd.sample(range(0, 256), rnd.randint(0, 6))):
        ch = []
        for cid in sorted(rnd.sample([0, 1, 2, 100, 254], rnd.randint(0, 3))):
            vals = [[t, rnd.choice(TEXTS)] for t in sorted(rnd.sample([0, 1, 2, 48, 49, -5, 10 ** 8, 999999999], rnd.randint(0, 3)))]
            ch.append([cid, {"type": rnd.choice([0, 6, 38, -1, 10 ** 15]), "desc": rnd.choice(TEXTS), "vals": vals}])
        nodes.append([nid, {"type": rnd.choice([17, 18, 0, -5, 10 ** 20]), "ver": rnd.choice(["2.0", "2.3.2", "", "é"]),
                            "bat": rnd.choice([0, 1, 57, 100]), "sn": rnd.choice(TEXTS), "sv": rnd.choice(TEXTS),
                            "hb": rnd.choice([0, 1111, -3, 10 ** 12]), "sl": rnd.random() < 0.4, "rb": False, "ch": ch}])
    return nodes


def _rt_worker(job):
    kind, payload, base = job
    loop = asyncio.new_event_loop()
    d = tempfile.mkdtemp(prefix="verif-persist-")
    out = []
    prior = None
    try:
        for k, item in enumerate(payload):
            if kind == "snapshot":
                gw = _new_gateway(os.path.join(d, "unused.json"))
                gwdriver.build_registry(gw, _unsmall(item))
                case = snapshot_case(loop, d, gw, base + k)
                case["origin"] = {"direct": True, "mutated_while_saving": True}
                out.append(case)
                continue
            if kind == "history":
                init, events = item
                run = gwdriver.Run(init)
                try:
                    for ev in events:
                        run.step(ev)
                    # the registry reached through the real handlers
                    case = roundtrip_case(loop, d, run.gateway, base + k, prior if k % 2 else None)
                    case["origin"] = {"init_ver": init["ver"], "events": [{a: b for a, b in e.items() if a in ("k", "n", "c", "cmd", "t", "p")} for e in events]}
                finally:
                    run.close()
            else:
                gw = _new_gateway(os.path.join(d, "unused.json"))
                gwdriver.build_registry(gw, _unsmall(item))
                case = roundtrip_case(loop, d, gw, base + k, prior if k % 2 else None)
                case["origin"] = {"direct": True}
            # the longest file written so far is what the next odd case finds at its path
            text = case.pop("text", None)
            if text is not None and (prior is None or len(text) > len(prior)):
                prior = text
            out.append(case)
    finally:
        loop.close()
        shutil.rmtree(d, ignore_errors=True)
    return out


def _unsmall(nodes):
    return nodes


def _locale_batch(regs: list) -> list:
    import subprocess
    import sys
    d = tempfile.mkdtemp(prefix="verif-locale-")
    try:
        inp, outp = os.path.join(d, "in.json"), os.path.join(d, "out.json")
        with open(inp, "w", encoding="ascii") as fil:
            json.dump(regs, fil)
        env = dict(os.environ, LC_ALL="C", LANG="C", PYTHONUTF8="0", PYTHONIOENCODING="ascii:backslashreplace",
                   PYTHONPATH=os.pathsep.join([common.VERIF, common.REPO_SRC]), PYTHONDONTWRITEBYTECODE="1")
        env.pop("PYTHONCOERCECLOCALE", None)
        env["PYTHONCOERCECLOCALE"] = "0"
        proc = subprocess.run([sys.executable, "-c",
                               "import sys, json; from harness import persist; persist._locale_child(sys.argv[1], sys.argv[2])", inp, outp],
                              env=env, cwd=d, capture_output=True, text=True, timeout=600)
        if proc.returncode != 0 or not os.path.exists(outp):
            common.machinery_failure("locale child failed: " + proc.stderr[-1500:])
        with open(outp, encoding="ascii") as fil:
            cases = json.load(fil)
        for c in cases:
            c["origin"] = {"direct": True, "locale": "C (PYTHONUTF8=0)"}
        return cases
    finally:
        shutil.rmtree(d, ignore_errors=True)


def _locale_child(inp: str, outp: str) -> None:
    import locale
    with open(inp, encoding="ascii") as fil:
        regs = json.load(fil)
    cases = _rt_worker(("direct", regs, 2 * 10 ** 6))
    for c in cases:
        c["encoding"] = locale.getpreferredencoding(False)
    with open(outp, "w", encoding="ascii") as fil:
        json.dump(cases, fil)


def _judge(cases: list, workdir: str, shards: int) -> tuple[list[int], int]:
    import concurrent.futures

    def one(k):
        part = cases[k::shards]
        if not part:
            return [], 0
        path = os.path.join(workdir, f"persist-cases-{k}.json")
        with open(path, "w") as fil:
            json.dump({"cases": part}, fil)
        out = tlc.run(workdir, "PersistTrace", "PersistTrace.cfg", workers=1, env={"TRACE_FILE": path})
        os.unlink(path)
        summ = tlc.summary(out)
        m = re.search(r'<<"DONE", (\d+)>>', out)
        if summ["error"] or summ["violated"] or not m or int(m.group(1)) != len(part):
            common.machinery_failure(f"PersistTrace failed:\n{out[-3000:]}")
        return [k + shards * (int(x) - 1) for x in re.findall(r'<<"REJECT", (\d+)>>', out)], summ["distinct"]

    with concurrent.futures.ThreadPoolExecutor(max_workers=shards) as pool:
        res = list(pool.map(one, range(shards)))
    return sorted(i for r, _ in res for i in r), sum(s for _, s in res)


def check_c13() -> int:
    common.enter_scratch()
    tier = common.tier()
    rep = common.Report("C13", tier)
    rnd = random.Random(common.seed() * 31 + 13)
    workdir = tlc.scratch()
    try:
        tlc.stage(workdir)
        hist_jobs = []
        for focus, depth in (("registry", 3 if tier == "quick" else 4), ("absurd", 2 if tier == "quick" else 3)):
            mc = corecheck.run_mc(focus, depth, workdir)
            rep.add_tlc(f"MC_{focus} depth {depth}", mc["summary"], {"histories_emitted": len(mc["covers"])})
            for h in mc["covers"]:
                hist_jobs.append(corecheck.concretise(focus, mc, h))
        nrand = 300 if tier == "quick" else 3000
        for _ in range(nrand):
            hist_jobs.append(corecheck.random_history(rnd, "C03", 30))
        direct = [random_registry(rnd) for _ in range(400 if tier == "quick" else 4000)]
        jobs = [("history", hist_jobs[i:i + 200], i) for i in range(0, len(hist_jobs), 200)]
        jobs += [("direct", direct[i:i + 200], 10 ** 6 + i) for i in range(0, len(direct), 200)]
        multi = [r for r in (random_registry(rnd) for _ in range(600 if tier == "quick" else 6000)) if len(r) >= 2]
        multi = multi[:120 if tier == "quick" else 1500]
        jobs += [("snapshot", multi[i:i + 10], 2 * 10 ** 6 + i) for i in range(0, len(multi), 10)]
        ctx = multiprocessing.get_context("fork")
        with ctx.Pool(16, initializer=common.limit_worker) as pool:
            cases = [c for part in pool.map(_rt_worker, jobs) for c in part]
        # the same round trip in a child interpreter under a non-UTF-8 locale (configuration: the file
        # must not depend on the locale's preferred encoding)
        cases += _locale_batch([random_registry(rnd) for _ in range(60 if tier == "quick" else 400)])
        # distinct registries only
        seen, uniq = set(), []
        for c in cases:
            key = json.dumps(c.get("reg", c.get("states")), sort_keys=True) + c["saveRes"] + c["loadRes"] + str(c.get("prior_bytes", -1) >= 0)
            if key not in seen:
                seen.add(key)
                uniq.append(c)
        rep.cov["evaluations"] = len(cases)
        rep.cov["distinct_nontrivial"] = len([c for c in uniq if c.get("reg") or c.get("states")])
        rep.cov["saves_over_an_earlier_longer_file"] = len([c for c in uniq if c.get("prior_bytes", -1) >= 0])
        rep.cov["saves_while_the_registry_changes"] = len([c for c in uniq if c["kind"] == "snapshot"])
        rep.cov["rule"] = "registries reached by TLC-emitted / random histories through the real handlers + random direct registries; distinct by registry; non-trivial = non-empty"
        rejected, states = _judge([{k: v for k, v in c.items() if k != "origin"} for c in uniq], workdir, 12)
        rep.cov["states"] += states
        rep.cov["transitions"] += states
        rep.add_traces(len(uniq))
        rts = [c for c in uniq if c["kind"] == "roundtrip"]
        rep.sample({"registry": rts[len(rts) // 2]["reg"], "origin": rts[len(rts) // 2]["origin"]})
        for i in rejected:
            c = uniq[i]
            if c["kind"] == "snapshot":
                rep.violation({"kind": "snapshot", "saveRes": c["saveRes"], "loadRes": c["loadRes"]},
                              {"kind": "persist-snapshot", "case": c},
                              f"save while the registry changes: {c['saveRes']}/{c['loadRes']}; the file holds none of the {len(c['states'])} "
                              f"registries that existed while it ran: loaded {json.dumps(c['loaded'])[:300]}")
                continue
            why = ("save/load failed: " + c["saveRes"] + "/" + c["loadRes"]) if (c["saveRes"] != "ok" or c["loadRes"] != "ok") else \
                  ("loaded registry differs" if c["loaded"] != _norb(c["reg"]) else "file or legacy form does not denote the registry / not loadable")
            rep.violation({"saveRes": c["saveRes"], "loadRes": c["loadRes"], "legacyRes": c["loadLegacyRes"], "prior": c.get("prior_bytes", -1) >= 0},
                          {"kind": "persist-roundtrip", "case": c},
                          f"persistence round trip: {why}; registry {json.dumps(c['reg'])[:300]} origin {json.dumps(c['origin'])[:300]}")
        # scale: the largest registry the id range allows (254 nodes x 24 children, every text 25 characters - about
        # 1.4 MB of JSON).  Too large a value for TLC's JSON module to be worth it: this one case is compared here.
        big = [[nid, {"type": 17, "ver": "2.3.2", "bat": nid % 101, "sn": ("sketch %03d " % nid).ljust(25, "x"), "sv": "1.0.%d" % nid, "hb": nid,
                      "sl": bool(nid % 2), "rb": False,
                      "ch": [[c, {"type": 6, "desc": ("child %02d of %03d" % (c, nid)).ljust(25, "y"), "vals": [[0, ("v%03d-%02d" % (nid, c)).ljust(25, "z")]]}]
                             for c in range(24)]}] for nid in range(1, 255)]
        bloop = asyncio.new_event_loop()
        bdir = tempfile.mkdtemp(prefix="verif-big-")
        try:
            gw = _new_gateway(os.path.join(bdir, "unused.json"))
            gwdriver.build_registry(gw, big)
            want = proj(gw)["nodes"]
            from aiomysensors.persistence import Persistence
            bpath = os.path.join(bdir, "big.json")
            outcome = "ok"
            try:
                bloop.run_until_complete(asyncio.wait_for(Persistence(gw.nodes, bpath).save(), 120))
                status, got = _load(bloop, bpath, via_context=False)
                if status != "ok":
                    outcome = "load of the saved file: " + status
                elif got != want:
                    outcome = "the loaded registry differs from the saved one"
            except BaseException as err:  # noqa: BLE001
                outcome = "save failed: " + type(err).__name__
            rep.cov["largest_registry"] = {"nodes": 254, "children_per_node": 24, "file_bytes": os.path.getsize(bpath) if os.path.exists(bpath) else -1,
                                           "outcome": outcome}
            rep.add_traces(1)
            if outcome != "ok":
                rep.violation({"kind": "largest-registry", "outcome": outcome.split(":")[0]},
                              {"kind": "persist-big"},
                              f"the largest registry (254 nodes x 24 children, {rep.cov['largest_registry']['file_bytes']} bytes on disk): {outcome}")
        finally:
            bloop.close()
            shutil.rmtree(bdir, ignore_errors=True)
        rep.assumptions += ["integers beyond 2^30 are carried as opaque tokens through TLC", "the legacy form of a registry is produced by the harness (key renames, null for empty sketch name); Persist.tla DenoteLegacy is the oracle for what it means"]
        return rep.finish()
    finally:
        shutil.rmtree(workdir, ignore_errors=True)


def _norb(nodes):
    return [[n, dict(nd, rb=False)] for n, nd in nodes]


# ---------------------------------------------------------------------------------------
# C14

VALID_TEXTS = None


def _valid_texts() -> list[str]:
    base = os.path.join(common.REPO_ROOT, "tests", "fixtures")
    out = []
    for name in ("test_aiomysensors_persistence.json", "test_pymysensors_persistence.json"):
        try:
            with open(os.path.join(base, name), encoding="utf-8") as fil:
                out.append(fil.read())
        except OSError:
            pass
    out.append(json.dumps({"1": {"node_id": 1, "node_type": 17, "protocol_version": "2.0", "children": {}, "sketch_name": "é",
                                 "sketch_version": "", "battery_level": 5, "heartbeat": 0, "sleeping": False}}, ensure_ascii=False, indent=2))
    return out


def _load_worker(job):
    items, base = job
    loop = asyncio.new_event_loop()
    d = tempfile.mkdtemp(prefix="verif-load-")
    out = []
    before_nodes = [[9, {"type": 17, "ver": "2.0", "bat": 1, "sn": "keep", "sv": "", "hb": 0, "sl": False, "rb": False, "ch": []}]]
    # (k % 4 == 2: the registry holds text that an ASCII-escaped file can carry but UTF-8 cannot: a lone surrogate)
    before_odd = [[9, {"type": 17, "ver": "2.0", "bat": 1, "sn": "keep\ud83d", "sv": "", "hb": 0, "sl": False, "rb": False, "ch": []}]]
    seen_cls: dict[str, int] = {}
    try:
        for k, (cls, content, tagged) in enumerate(items):
            path = os.path.join(d, f"f-{k}.json")
            if cls != "missing":
                with open(path, "wb") as fil:
                    fil.write(content)
            gw = _new_gateway(path)
            # (json files: every fifth one is loaded into a registry that already holds a node the file does not mention)
            seen_cls[cls] = seen_cls.get(cls, 0) + 1
            nth = seen_cls[cls] - 1          # (per class, so that the mix does not depend on how many other files precede)
            seeded = (cls in ("missing", "empty") and nth % 2 == 0) or (cls == "json" and k % 5 == 0)
            if seeded:
                gwdriver.build_registry(gw, before_odd if (cls == "missing" and nth % 4 == 2) else before_nodes)
            before = proj(gw)["nodes"]
            via_context = (k % 3 == 0) if cls not in ("missing", "empty") else (nth % 3 == 0)
            try:
                if via_context:
                    async def enter(g=gw):
                        async with g:
                            pass
                    loop.run_until_complete(asyncio.wait_for(enter(), 20))
                else:
                    loop.run_until_complete(asyncio.wait_for(gw.persistence.load(), 20))
                res = "ok"
            except PersistenceReadError:
                res = "readerror"
            except BaseException as err:  # noqa: BLE001
                res = "other:" + type(err).__name__
            again = False
            if cls == "missing" and res == "ok" and nth % 3 != 1 and os.path.exists(path):
                # the created file disappears again and the same object loads once more (a second session of the
                # same gateway, or a second call of load): a missing file is created whenever it is found missing
                again = True
                os.unlink(path)
                before = proj(gw)["nodes"]
                try:
                    if via_context:
                        async def enter2(g=gw):
                            async with g:
                                pass
                        loop.run_until_complete(asyncio.wait_for(enter2(), 20))
                    else:
                        loop.run_until_complete(asyncio.wait_for(gw.persistence.load(), 20))
                    res = "ok"
                except PersistenceReadError:
                    res = "readerror"
                except BaseException as err:  # noqa: BLE001
                    res = "other:" + type(err).__name__
            case = {"kind": "load", "class": cls, "file": tagged, "res": res, "loaded": proj(gw)["nodes"], "before": before,
                    "created": False, "seeded": bool(seeded and cls == "json"),
                    "via": ("context" if via_context else "load") + (", missing a second time on the same object" if again else "")}
            if cls == "missing":
                case["created"] = os.path.exists(path)
                if case["created"]:
                    try:
                        with open(path, encoding="utf-8") as fil:
                            case["file"] = tag(json.load(fil))
                    except BaseException:  # noqa: BLE001
                        case["file"] = {"j": "null"}
            case["content_preview"] = content[:120].decode("utf-8", "replace") if content is not None else None
            case["content_hex"] = content.hex() if content is not None else None
            out.append(case)
            try:
                os.unlink(path)
            except OSError:
                pass
            for t in asyncio.all_tasks(loop):
                t.cancel()
    finally:
        loop.close()
        shutil.rmtree(d, ignore_errors=True)
    return out


def check_c14() -> int:
    common.enter_scratch()
    tier = common.tier()
    rep = common.Report("C14", tier)
    rnd = random.Random(common.seed() * 31 + 14)
    workdir = tlc.scratch()
    try:
        tlc.stage(workdir)
        out = tlc.run(workdir, "MC_persist_shapes", "MC_persist_shapes.cfg", workers=1)
        summ = tlc.summary(out)
        if summ["violated"] or summ["error"] or not summ["distinct"]:
            common.machinery_failure(f"MC_persist_shapes failed:\n{out[-3000:]}")
        shapes = [json.loads(json.loads(line[len('<<"CASE", '):-2])) for line in out.splitlines() if line.startswith('<<"CASE"')]
        rep.add_tlc("MC_persist_shapes", summ, {"shapes_emitted": len(shapes)})
        items = []
        for t in shapes:
            items.append(("json", json.dumps(untag(t)).encode(), t))
        # byte-level classes
        null = {"j": "null"}
        for text in _valid_texts():
            raw = text.encode("utf-8")
            step = 1 if tier == "thorough" else max(1, len(raw) // 150)
            for cut in range(0, len(raw), step):
                items.append(("prefix", raw[:cut] if cut else b" ", null))
            for _ in range(20 if tier == "quick" else 200):
                pos = rnd.randrange(len(raw))
                items.append(("corrupt", raw[:pos] + bytes([rnd.choice([0xFF, 0xFE, 0xC3, 0x00, 0x80])]) + raw[pos + 1:], null))
        for raw in (b"\xff\xfe", b"\xff\xfe{\x00}\x00", b"\x80abc", bytes(range(256)), b"\xc3", b"{\"1\": \"\xc3\"}", b"\xef\xbb\xbf{}"):
            items.append(("bytes", raw, null))
        for raw in (b"[]", b"1", b"null", b"true", b"\"s\"", b"{}", b"1e400", b"{\"1\": 1e400}", b"NaN", b"{\"1\": NaN}", b"[" * 40 + b"]" * 40,
                    b"{\"a\": {\"node_id\": 1}}", b"{\"1\": {\"node_id\": 1, \"node_id\": 2}}"):
            items.append(("rawjson", raw, null))
        # well-formed JSON with deeply nested values in every position, and texts holding half of a surrogate pair
        node = {"node_id": 1, "node_type": 17, "protocol_version": "2.0", "children": {}, "sketch_name": "s", "sketch_version": "",
                "battery_level": 5, "heartbeat": 0, "sleeping": False}
        child = {"child_id": 0, "child_type": 6, "description": "", "values": {}}
        for depth in (200, 500, 700):
            deep = "[" * depth + "]" * depth
            deepobj = '{"a":' * depth + "1" + "}" * depth
            for nested in (deep, deepobj):
                marker = '"@@"'
                docs = [{"1": "@@"}, {"1": dict(node, children="@@")}, {"1": dict(node, extra="@@")}, {"1": dict(node, sketch_name="@@")},
                        {"1": dict(node, children={"0": dict(child, values={"0": "@@"})})}, {"1": dict(node, children={"0": dict(child, extra="@@")})},
                        {"1": dict(node, children={"0": "@@"})}]
                for doc in docs:
                    items.append(("rawjson", json.dumps(doc).replace(marker, nested).encode(), null))
        # nesting beyond what the JSON parser itself accepts (it gives up with RecursionError): still a read error
        for depth in (2000, 50000):
            items.append(("rawjson", ('{"1": ' + "[" * depth + "]" * depth + "}").encode(), null))
            items.append(("rawjson", ("[" * depth + "]" * depth).encode(), null))
            items.append(("rawjson", ('{"1": ' + '{"a":' * depth + "1" + "}" * depth + "}").encode(), null))
        for esc in ("\\ud83d", "\\udc00x", "a\\ud83d\\ud83d"):
            for doc in ({"1": dict(node, sketch_name="@@")}, {"1": dict(node, sketch_version="@@")},
                        {"1": dict(node, children={"0": dict(child, description="@@")})},
                        {"1": dict(node, children={"0": dict(child, values={"0": "@@"})})}, {"1": dict(node, protocol_version="@@")}):
                items.append(("rawjson", json.dumps(doc).replace("@@", esc).encode(), null))
        for _ in range(12):
            items.append(("empty", b"", null))
            items.append(("missing", None, null))
        jobs = [(items[i:i + 150], i) for i in range(0, len(items), 150)]
        ctx = multiprocessing.get_context("fork")
        with ctx.Pool(16, initializer=common.limit_worker) as pool:
            cases = [c for part in pool.map(_load_worker, jobs) for c in part]
        rep.cov["evaluations"] = len(cases)
        rep.cov["distinct_nontrivial"] = len({c["content_preview"] for c in cases})
        rep.cov["rule"] = "file contents: TLC-enumerated single-point mutants of valid native/legacy files + byte prefixes, corrupted bytes, non-JSON, empty, missing; distinct by content"
        rejected, states = _judge([{k: v for k, v in c.items() if k not in ("content_preview", "content_hex", "via")} for c in cases], workdir, 8)
        rep.cov["states"] += states
        rep.cov["transitions"] += states
        rep.add_traces(len(cases))
        rep.cov["outcomes"] = {r: sum(1 for c in cases if c["res"] == r) for r in sorted({c["res"] for c in cases})}
        rep.sample({"class": cases[5]["class"], "content": cases[5]["content_preview"], "result": cases[5]["res"]})
        for i in rejected:
            c = cases[i]
            rep.violation({"res": c["res"].split(":")[-1] if c["res"].startswith("other") else c["res"], "class": c["class"]},
                          {"kind": "persist-load", "case": c},
                          f"load of a {c['class']} file via {c['via']}: result {c['res']}; content {json.dumps(c['content_preview'])[:200]}")
        rep.assumptions += ["file contents are single-point mutants, prefixes and corruptions of valid files, not all byte strings",
                            "very deep nesting (RecursionError in the JSON parser) is not generated"]
        return rep.finish()
    finally:
        shutil.rmtree(workdir, ignore_errors=True)


def check(prop: str) -> int:
    return check_c13() if prop == "C13" else check_c14()


def replay(doc: dict) -> int:
    """Re-execute the case on the current tree and let TLC (PersistTrace.tla) judge it again."""
    common.enter_scratch()
    c = doc["case"]
    loop = asyncio.new_event_loop()
    d = tempfile.mkdtemp(prefix="verif-replay-")
    work = tlc.scratch()
    try:
        tlc.stage(work)
        if doc["kind"] == "persist-big":
            print("the largest-registry case is re-run by ./check C13 (it has no input besides the code under test)")
            return check_c13()
        if doc["kind"] == "persist-load":
            content = bytes.fromhex(c["content_hex"]) if c.get("content_hex") is not None else None
            case = _load_worker(([(c["class"], content, c["file"] if c["class"] == "json" else {"j": "null"})], 0))[0]
            print("load ->", case["res"], "loaded:", json.dumps(case["loaded"])[:300])
        elif doc["kind"] == "persist-snapshot":
            gw = _new_gateway(os.path.join(d, "x.json"))
            gwdriver.build_registry(gw, c["states"][0])
            case = snapshot_case(loop, d, gw, 0)
            print("save ->", case["saveRes"], "load ->", case["loadRes"], "is one of the states:", case["loaded"] in [_norb(x) for x in case["states"]])
        else:
            gw = _new_gateway(os.path.join(d, "x.json"))
            gwdriver.build_registry(gw, c["reg"])
            prior = None
            if c.get("prior_bytes", -1) >= 0:
                prior = json.dumps({str(i): {"padding": "x" * 50} for i in range(max(1, c["prior_bytes"] // 60))})
            case = roundtrip_case(loop, d, gw, 0, prior)
            case.pop("text", None)
            print("save ->", case["saveRes"], "load ->", case["loadRes"], "legacy load ->", case["loadLegacyRes"] or "-",
                  "native equal:", case["loaded"] == _norb(c["reg"]), "legacy equal:", (not case["hasLegacy"]) or case["loadedLegacy"] == _norb(c["reg"]))
        rejected, _ = _judge([{k: v for k, v in case.items() if k not in ("content_preview", "content_hex", "via", "origin")}], work, 1)
        if rejected:
            print(f"VIOLATION property={doc.get('property')} replay=(this file)")
            return 1
        print("accepted by the reference")
        return 0
    finally:
        loop.close()
        shutil.rmtree(d, ignore_errors=True)
        shutil.rmtree(work, ignore_errors=True)
