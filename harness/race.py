"""C09: send racing with the wake-up flush, decided with spec/FlushRace.tla (explorer,
implementation-shaped) and spec/RaceMonitor.tla (reference that judges real executions).

The real Gateway runs with a transport whose write() suspends until the harness releases
it, so every transport-write suspension point is a scheduling decision of the harness.
 - spec -> code: every complete schedule of FlushRace.tla emitted by TLC is replayed;
 - beyond the model: a depth-first exploration of ALL choices the real code offers
   (start a sender, release any suspended write) - schedules the model does not know;
 - code -> spec: the recorded send/write events of every execution are judged by TLC
   against RaceMonitor.tla.
"""
from __future__ import annotations

import asyncio
import itertools
import json
import multiprocessing
import os
import re

from aiomysensors import Gateway
from aiomysensors.exceptions import TransportError
from aiomysensors.model.message import Message
from aiomysensors.model.node import Node
from aiomysensors.transport import Transport

from . import common, tlc
from .gwdriver import parse_write

KEYMAP = {"k1": (0, 0), "k2": (0, 1), "k3": (1, 0), "k4": (1, 1)}  # key -> (child, value type) on node 1
NODE = 1
MAX_CHOICES = 60
AWAKE = 2   # senders named d* address this node, which is not sleeping: their send suspends in its own write


class InjectedWriteFault(TransportError):
    """Raised by the gated transport for a suspended write the harness chose to fail."""


class GateTransport(Transport):
    def __init__(self, events: list) -> None:
        self.lines: list[str] = []
        self.events = events
        self.pending: list[tuple[str, asyncio.Future]] = []  # (task name, gate)
        self.gated = True

    async def connect(self) -> None:
        pass

    async def disconnect(self) -> None:
        pass

    async def read(self) -> str:
        if not self.lines:
            await asyncio.get_running_loop().create_future()
        return self.lines.pop(0)

    async def write(self, decoded_message: str) -> None:
        w = parse_write(decoded_message)
        self.events.append({"e": "write", "n": w["n"], "c": w["c"], "t": w["t"], "v": w["p"], "ack": w["ack"],
                            "cmd": w["cmd"], "id": -1})
        if self.gated:
            ev = self.events[-1]
            fut = asyncio.get_running_loop().create_future()
            name = asyncio.current_task().get_name()
            if not re.fullmatch(r"listener|final|[sd]\d+", name):
                # a task the library created itself (names like Task-17 differ from run to run): identify the
                # suspended write by its content, so that the stateless re-execution stays deterministic
                name = "w:" + decoded_message.strip()
            self.pending.append((name, fut))
            try:
                await fut
            except InjectedWriteFault:
                ev["e"] = "write_failed"      # the transport refused the line: not a write for the monitor
                raise


class Execution:
    """One run of the real code under harness-controlled scheduling."""

    def __init__(self, proto: str, init_keys: list[str], sender_plan: dict[str, list[tuple[str, str]]], max_faults: int = 0) -> None:
        self.max_faults = max_faults
        self.faults = 0
        self.loop = asyncio.new_event_loop()
        self.events: list[dict] = []
        self.tr = GateTransport(self.events)
        self.gw = Gateway(self.tr)
        self.gw.protocol_version = proto
        node = Node(NODE, 17, proto, sleeping=True)
        for c in (0, 1):
            node.add_child(c, 6, values={0: "reported", 1: "reported"})   # what the node last reported
        self.gw.nodes[NODE] = node
        other = Node(2, 17, proto, sleeping=False)
        other.add_child(0, 6)
        self.gw.nodes[2] = other
        self.wake_line = f"{NODE};255;3;0;{32 if proto == '2.2' else 22};{'' if proto == '2.2' else '1'}\n"
        self.plan = sender_plan
        self.tasks: dict[str, asyncio.Task] = {}
        self.ids = itertools.count(1)
        self.gen = None
        # parked before the race (sequential sends, recorded as sent)
        self.tr.gated = False
        for k in init_keys:
            self.loop.run_until_complete(self._send(k, "init-" + k))
        self.tr.gated = True

    async def _send(self, key: str, val: str) -> None:
        node, (c, t) = (AWAKE, (0, 0)) if key.startswith("d") else (NODE, KEYMAP[key])
        ack = 1 if val.endswith("+ack") else 0
        sid = next(self.ids)
        self.events.append({"e": "send_start", "id": sid, "n": node, "c": c, "t": t, "v": val, "ack": ack, "cmd": 1})
        await self.gw.send(Message(node, c, 1, ack, t, val))
        self.events.append({"e": "send_end", "id": sid, "n": node, "c": c, "t": t, "v": val, "ack": ack, "cmd": 1})

    async def _sender(self, name: str) -> None:
        for key, val in self.plan[name]:
            await self._send(key, val)

    async def _listen_once(self) -> None:
        if self.gen is None:
            self.gen = self.gw.listen()
        try:
            await self.gen.__anext__()
        except BaseException:
            self.gen = None
            raise

    def settle(self) -> None:
        for _ in range(6):
            self.loop.run_until_complete(asyncio.sleep(0))

    # -- commands ------------------------------------------------------------------------
    def enabled(self) -> list[tuple]:
        cmds = []
        if "listener" not in self.tasks:
            cmds.append(("start", "listener"))
        for name in sorted(self.plan):
            if name not in self.tasks:
                cmds.append(("start", name))
        seen = set()
        self.tr.pending = [(n, f) for n, f in self.tr.pending if not f.done()]    # a cancelled write is gone
        for name, _ in self.tr.pending:
            if name not in seen:
                seen.add(name)
                cmds.append(("release", name))
                # a write of the flush (the listener's own, or of a task the library created for it) may fail
                if self.faults < self.max_faults and (name == "listener" or name.startswith("w:")):
                    cmds.append(("fail", name))
        return cmds

    def do(self, cmd: tuple) -> bool:
        kind, name = cmd
        if kind == "start":
            if name in self.tasks:
                return False
            if name == "listener":
                self.tr.lines.append(self.wake_line)
                coro = self._listen_once()
            else:
                coro = self._sender(name)
            self.tasks[name] = self.loop.create_task(coro, name=name)
        else:
            for i, (n, fut) in enumerate(self.tr.pending):
                if n == name and not fut.done():
                    del self.tr.pending[i]
                    if kind == "fail":
                        self.faults += 1
                        fut.set_exception(InjectedWriteFault("injected write fault"))
                    else:
                        fut.set_result(None)
                    break
            else:
                return False
        self.settle()
        return True

    def finish(self) -> dict:
        """Run everything to completion (FIFO release), then the node wakes once more."""
        for name in ["listener"] + sorted(self.plan):
            if name not in self.tasks:
                self.do(("start", name))
        guard = 0
        while self.tr.pending and guard < 1000:
            guard += 1
            n, fut = self.tr.pending.pop(0)
            if fut.done():
                continue
            fut.set_result(None)
            self.settle()
        errors = []
        quiescent = all(t.done() for t in self.tasks.values())
        reported = False
        for name, t in self.tasks.items():
            if t.done() and not t.cancelled() and t.exception() is not None:
                if self.faults and name == "listener" and isinstance(t.exception(), TransportError):
                    reported = True      # C08: the failure is reported to the caller of listen
                    continue
                errors.append(f"{name}: {type(t.exception()).__name__}: {t.exception()}")
        if self.faults and not reported:
            errors.append("listener: the injected write failure was not reported to the caller of listen")
        # final wake, sequential
        self.tr.gated = False
        self.tr.lines.append(self.wake_line.replace(";1\n", ";2\n"))
        fin = self.loop.create_task(self._listen_once(), name="final")
        self.settle()
        quiescent = quiescent and fin.done()
        if fin.done() and fin.exception() is not None:
            errors.append(f"final wake: {type(fin.exception()).__name__}: {fin.exception()}")
        return {"events": self.events, "quiescent": quiescent, "errors": errors, "faults": self.faults}

    def close(self) -> None:
        try:
            for t in list(self.tasks.values()):
                if t.done() and not t.cancelled():
                    t.exception()       # retrieved: no "never retrieved" noise for abandoned prefixes
            for t in asyncio.all_tasks(self.loop):
                t.cancel()
            self.loop.run_until_complete(asyncio.sleep(0))
            if self.gen is not None:
                try:
                    self.loop.run_until_complete(self.gen.aclose())
                except BaseException:  # noqa: BLE001
                    pass
        finally:
            self.loop.close()


def run_schedule(job) -> dict:
    proto, init_keys, plan, schedule = job[:4]
    ex = Execution(proto, init_keys, plan, job[4] if len(job) > 4 else 0)
    skipped = 0
    try:
        for cmd in schedule:
            if not ex.do(tuple(cmd)):
                skipped += 1
        res = ex.finish()
    finally:
        ex.close()
    res.update({"proto": proto, "init": init_keys, "plan": plan, "schedule": [list(c) for c in schedule], "drift": skipped})
    return res


def explore(job) -> list[dict]:
    """Depth-first over every choice the real code offers (stateless re-execution)."""
    proto, init_keys, plan, max_runs = job[:4]
    max_faults = job[4] if len(job) > 4 else 0
    out = []
    stack = [[]]
    steps = 0
    while stack and len(out) < max_runs and steps < 40 * max_runs:
        steps += 1
        prefix = stack.pop()
        ex = Execution(proto, init_keys, plan, max_faults)
        try:
            applied = [ex.do(cmd) for cmd in prefix]
            en = ex.enabled()
            if prefix and not applied[-1]:
                continue    # the last choice did not apply on re-execution (not deterministic): nothing new below it
            if len(prefix) > MAX_CHOICES:
                # far more scheduling decisions than sends and parked commands could need: the code keeps
                # suspending; finish FIFO and let the monitor judge what was written
                en = []
            if not en:
                res = ex.finish()
                res.update({"proto": proto, "init": init_keys, "plan": plan, "schedule": [list(c) for c in prefix], "drift": 0})
                out.append(res)
            else:
                for cmd in reversed(en):
                    stack.append(prefix + [cmd])
        finally:
            ex.close()
    return out


# ---------------------------------------------------------------------------------------


def model_schedules(workdir: str, keys: str, senders: str, maxsends: int, direct: str = "D0", faults: bool = False) -> tuple[list, dict]:
    cfg = open(os.path.join(workdir, "MC_race.cfg")).read()
    if faults:
        cfg = cfg.replace("Faults = FALSE", "Faults = TRUE")
    cfg = cfg.replace("Keys <- K3", f"Keys <- {keys}").replace("Senders <- S2", f"Senders <- {senders}")
    cfg = cfg.replace("DirectSenders <- D1", f"DirectSenders <- {direct}")
    cfg = cfg.replace("MaxSends = 1", f"MaxSends = {maxsends}")
    with open(os.path.join(workdir, "MC_race_run.cfg"), "w") as fil:
        fil.write(cfg)
    out = tlc.run(workdir, "MC_race", "MC_race_run.cfg", workers=1)
    summ = tlc.summary(out)
    if summ["violated"]:
        # the implementation-shaped model itself loses an update: report it, the verdict comes from the replay
        pass
    if summ["error"] or not summ["distinct"]:
        common.machinery_failure(f"FlushRace: TLC failed:\n{out[-2000:]}")
    scheds = []
    for line in out.splitlines():
        if line.startswith('<<"SCHEDULE"'):
            scheds.append(json.loads(json.loads(line[len('<<"SCHEDULE", '):-2])))
    if faults:
        return scheds, summ
    live = tlc.run(workdir, "MC_race", "MC_race_live.cfg", workers=4)
    ls = tlc.summary(live)
    if ls["violated"] or ls["error"]:
        common.machinery_failure(f"FlushRace liveness (Terminates) failed in the model:\n{live[-2000:]}")
    summ["liveness_states"] = ls["distinct"]
    return scheds, summ


def concretise(s: dict, proto: str) -> tuple:
    """Model schedule -> harness commands.  SSend(s, key): start sender s (its n-th send uses that key)."""
    plan: dict[str, list] = {}
    sched = []
    started = set()
    for a in s["hist"]:
        if a == "LWake":
            sched.append(("start", "listener"))
        elif a == "LStep":
            sched.append(("release", "listener"))
        elif a == "LFail":
            sched.append(("fail", "listener"))
        elif a == "FinalWake":
            pass
        elif a[0] == "SBegin":
            plan.setdefault(a[1], []).append((a[1], f"{a[1]}-1"))
            sched.append(("start", a[1]))
        elif a[0] == "SEnd":
            sched.append(("release", a[1]))
        else:
            _, name, key = a
            plan.setdefault(name, []).append((key, f"{name}-{len(plan.get(name, [])) + 1}"))
            if name not in started:
                started.add(name)
                sched.append(("start", name))
            # a second send of the same sender follows the first without suspension in the real code
    return proto, list(s["init"]), plan, sched


def judge(runs: list[dict], workdir: str, shards: int) -> tuple[list[str], int]:
    import concurrent.futures

    def one(k):
        part = runs[k::shards]
        if not part:
            return [], 0
        path = os.path.join(workdir, f"race-runs-{k}.json")
        with open(path, "w") as fil:
            json.dump({"runs": [{"events": r["events"], "quiescent": r["quiescent"]} for r in part]}, fil)
        out = tlc.run(workdir, "RaceMonitor", "RaceMonitor.cfg", workers=1, env={"TRACE_FILE": path})
        os.unlink(path)
        summ = tlc.summary(out)
        ver = {int(a): b for a, b in re.findall(r'<<"VERDICT", (\d+), "([\w-]+)">>', out)}
        if summ["error"] or len(ver) != len(part):
            common.machinery_failure(f"RaceMonitor failed:\n{out[-3000:]}")
        return [ver[i + 1] for i in range(len(part))], summ["distinct"]

    with concurrent.futures.ThreadPoolExecutor(max_workers=shards) as pool:
        res = list(pool.map(one, range(shards)))
    verdicts = [None] * len(runs)
    for k, (vs, _) in enumerate(res):
        for j, v in enumerate(vs):
            verdicts[k + shards * j] = v
    return verdicts, sum(s for _, s in res)


def check(prop: str) -> int:
    common.enter_scratch()
    tier = common.tier()
    rep = common.Report(prop, tier)
    workdir = tlc.scratch()
    import shutil
    try:
        tlc.stage(workdir)
        keys, senders, ms = ("K3", "S2", 1) if tier == "quick" else ("K3", "S3", 1)
        scheds, summ = model_schedules(workdir, keys, senders, ms)
        rep.add_tlc(f"MC_race Keys={keys} Senders={senders} PopMode=identity", summ, {"schedules_emitted": len(scheds)})
        # with a sender that addresses an awake node (its send suspends in its own write)
        scheds2, summ2 = model_schedules(workdir, "K2", "S2" if tier == "thorough" else "S1", 1, direct="D1")
        rep.add_tlc("MC_race with a direct sender (awake destination)", summ2, {"schedules_emitted": len(scheds2)})
        scheds = scheds + scheds2
        protos = ["2.0", "2.2"] if tier == "quick" else ["2.0", "2.1", "2.2"]
        jobs = []
        seen = set()
        for i, s in enumerate(scheds):
            job = concretise(s, protos[i % len(protos)])
            key = json.dumps(job, sort_keys=True)
            if key not in seen:
                seen.add(key)
                jobs.append(job)
        ctx = multiprocessing.get_context("fork")
        with ctx.Pool(16, initializer=common.limit_worker) as pool:
            runs = pool.map(run_schedule, jobs, chunksize=32)
            # exhaustive exploration of the real code's own choice points
            ejobs = []
            init_sets = [["k1"], ["k1", "k2"], ["k1", "k2", "k3"]] if tier == "quick" else \
                        [["k1"], ["k1", "k2"], ["k1", "k2", "k3"], ["k1", "k2", "k3", "k4"]]
            nsend = 2 if tier == "quick" else 3
            names = ["s1", "s2", "s3"][:nsend]
            for init in init_sets:
                pool_keys = init[:2] + [k for k in ("k4",) if k not in init][:1] if tier == "quick" else list(dict.fromkeys(init[:3] + ["k4"]))
                for combo in itertools.product(pool_keys, repeat=nsend):
                    if tier == "thorough" and len(init) == 4 and len(set(combo)) == 3 and combo != tuple(sorted(combo)):
                        continue
                    plan = {n: [(k, f"{n}-1")] for n, k in zip(names, combo)}
                    for proto in (protos if len(init) <= 2 else protos[:1]):
                        ejobs.append((proto, init, plan, 4000))
            # one sender sending twice to the same key (two suspension points of one flush)
            for init in init_sets[1:3]:
                for proto in protos[:1]:
                    ejobs.append((proto, init, {"s1": [(init[0], "s1-1"), (init[0], "s1-2")], "s2": [(init[0], "s2-1")]}, 4000))
                    ejobs.append((proto, init, {"s1": [(init[0], "s1-1")], "s2": [(init[0], "same")], "s3": [(init[0], "same")]}, 4000))
                    # the same key sent with alternating ack flags
                    ejobs.append((proto, init, {"s1": [(init[0], "s1-1+ack"), (init[0], "s1-2")], "s2": [(init[0], "s2-1+ack")]}, 4000))
                    # one sender addresses the awake node: its write suspends like the listener's
                    ejobs.append((proto, init, {"s1": [(init[0], "s1-1")], "d1": [("d1", "d1-1")]}, 4000))
                    # a sender re-sends exactly the value the node last reported
                    ejobs.append((proto, init, {"s1": [(init[0], "reported")], "s2": [(init[-1], "s2-1")]}, 4000))
            for part in pool.map(explore, ejobs, chunksize=1):
                runs.extend(part)
        rep.cov["evaluations"] = len(runs)
        rep.cov["model_schedules_replayed"] = len(jobs)
        rep.cov["explored_schedules_real_code"] = len(runs) - len(jobs)
        rep.cov["model_drift_commands_skipped"] = sum(r["drift"] for r in runs)
        verdicts, states = judge(runs, workdir, 12)
        rep.cov["states"] += states
        rep.cov["transitions"] += states
        rep.add_traces(len(runs))
        rep.cov["distinct_nontrivial"] = len({json.dumps([r["proto"], r["init"], r["plan"], r["schedule"]], sort_keys=True) for r in runs})
        rep.cov["rule"] = ("complete schedules: every schedule of FlushRace.tla emitted by TLC + depth-first enumeration of every choice "
                           "(start sender / release a suspended write) the real code offers; distinct by (protocol, parked keys, sender plan, schedule)")
        rep.sample({"schedule": runs[len(runs) // 2]["schedule"], "plan": runs[len(runs) // 2]["plan"],
                    "events": [[e["e"], e["c"], e["t"], e["v"]] for e in runs[len(runs) // 2]["events"]]})
        for r, v in zip(runs, verdicts):
            if r["errors"]:
                v = "task-error"
            if v != "ok":
                rep.violation({"verdict": v},
                              {"kind": "race-schedule", "proto": r["proto"], "init": r["init"], "plan": r["plan"],
                               "schedule": r["schedule"], "events": r["events"], "errors": r["errors"]},
                              f"{v}: protocol {r['proto']}, parked {r['init']}, senders {json.dumps(r['plan'])}, schedule {json.dumps(r['schedule'])}; "
                              f"writes {[e['v'] for e in r['events'] if e['e'] == 'write']} {r['errors']}")
        rep.assumptions += ["suspension points are the transport writes (the property's quantifier); a write happens when the line is handed to the transport",
                            "senders address the sleeping node; one listener; bounded numbers of parked commands and senders"]
        return rep.finish()
    finally:
        shutil.rmtree(workdir, ignore_errors=True)


def fault_exploration(tier: str, workdir: str) -> tuple[list[dict], list[str], int, dict]:
    """C08 under concurrency: every choice the real code offers - start a sender, release a suspended write,
    or FAIL one suspended write of the flush - explored depth-first; after the failure the node wakes once
    more without faults and the monitor judges what reached the transport (failed writes do not count)."""
    protos = ["2.0", "2.2"] if tier == "quick" else ["2.0", "2.1", "2.2"]
    ejobs = []
    inits = [["k1"], ["k1", "k2"], ["k1", "k2", "k3"]]
    for init in inits:
        for proto in (protos if len(init) < 3 else protos[:1]):
            ejobs.append((proto, init, {}, 3000, 1))                                        # the flush alone
            ejobs.append((proto, init, {"s1": [(init[0], "s1-1")]}, 3000, 1))               # a newer value for a parked key
            ejobs.append((proto, init, {"s1": [("k4", "s1-1")]}, 3000, 1))                  # a new key
            if tier == "thorough" or len(init) == 2:
                ejobs.append((proto, init, {"s1": [(init[0], "s1-1")], "s2": [(init[-1], "s2-1")]}, 3000, 1))
    # spec -> code: every complete schedule of FlushRace.tla with Faults = TRUE that contains the failure
    scheds, summ = model_schedules(workdir, "K2" if tier == "quick" else "K3", "S2", 1, faults=True)
    scheds = [x for x in scheds if "LFail" in x["hist"]]
    jobs, seen = [], set()
    for i, x in enumerate(scheds):
        job = concretise(x, protos[i % len(protos)]) + (1,)
        key = json.dumps(job, sort_keys=True)
        if key not in seen:
            seen.add(key)
            jobs.append(job)
    ctx = multiprocessing.get_context("fork")
    runs = []
    with ctx.Pool(16, initializer=common.limit_worker) as pool:
        runs.extend(pool.map(run_schedule, jobs, chunksize=32))
        for job, part in zip(ejobs, pool.map(explore, ejobs, chunksize=1)):
            runs.extend(part)
    verdicts, states = judge(runs, workdir, 8)
    summ["model_schedules_with_a_failed_write_replayed"] = len(jobs)
    return runs, verdicts, states, summ


def replay(doc: dict) -> int:
    common.enter_scratch()
    plan = {k: [tuple(x) for x in v] for k, v in doc["plan"].items()}
    res = run_schedule((doc["proto"], doc["init"], plan, [tuple(c) for c in doc["schedule"]], int(doc.get("max_faults", 0))))
    work = tlc.scratch()
    try:
        tlc.stage(work)
        verdicts, _ = judge([res], work, 1)
    finally:
        import shutil
        shutil.rmtree(work, ignore_errors=True)
    print("writes:", [e["v"] for e in res["events"] if e["e"] == "write"], "verdict:", verdicts[0], res["errors"])
    if verdicts[0] != "ok" or res["errors"]:
        print(f"VIOLATION property={doc.get('property', 'C09')} replay=(this file)")
        return 1
    return 0
