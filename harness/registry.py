"""Which module decides which property."""
from . import codec, corecheck, lifecycle, session, mqttcheck, persist, race, savecrash, stable, stream

CHECKS = {p: corecheck.check for p in corecheck.PROPS}
CHECKS.update({"C01": codec.check, "C02": codec.check, "C09": race.check, "C13": persist.check, "C14": persist.check, "C15": savecrash.check, "C17": stream.check, "C18": mqttcheck.check, "C19": stable.check, "C16": lifecycle.check, "session": session.check})


def replay(doc: dict) -> int:
    kind = doc.get("kind")
    if kind == "gateway-history":
        return corecheck.replay(doc)
    if kind in ("persist-load", "persist-roundtrip", "persist-snapshot", "persist-big"):
        return persist.replay(doc)
    if kind == "lifecycle-run":
        return lifecycle.replay(doc)
    if kind == "stable-pair":
        return stable.replay(doc)
    if kind == "mqtt-run":
        return mqttcheck.replay(doc)
    if kind == "stream-run":
        return stream.replay(doc)
    if kind == "save-crash":
        return savecrash.replay(doc)
    if kind == "race-schedule":
        return race.replay(doc)
    if kind == "codec-case":
        return codec.replay(doc)
    raise SystemExit(f"unknown replay kind {kind}")
