"""Which module decides which property."""
from . import corecheck

CHECKS = {p: corecheck.check for p in corecheck.PROPS}


def replay(doc: dict) -> int:
    kind = doc.get("kind")
    if kind == "gateway-history":
        return corecheck.replay(doc)
    raise SystemExit(f"unknown replay kind {kind}")
