"""C15: crash during save, decided with spec/SaveCrash.tla.

The sequence of file-system operations of the REAL Persistence.save is recorded with strace
(whatever file layer the implementation uses), TLC executes it on a small file-system model
and enumerates every crash state (between operations and inside each write), each crash state
is materialised as real bytes in a scratch directory and given to the real Persistence.load.
Verdict: the loaded registry must be the old or the new one.
"""
from __future__ import annotations

import asyncio
import json
import os
import re
import shutil
import subprocess
import sys
import tempfile

from aiomysensors import Gateway
from aiomysensors.exceptions import PersistenceReadError
from aiomysensors.gateway import Config

from . import common, gwdriver, tlc
from .gwdriver import FakeTransport, proj

CHILD = r"""
import asyncio, json, os, sys, shutil
sys.dont_write_bytecode = True
from aiomysensors.persistence import Persistence
from harness import gwdriver
from aiomysensors import Gateway
d, old, new, prefail = sys.argv[1], json.loads(sys.argv[2]), json.loads(sys.argv[3]), sys.argv[4] == "1"
mid = json.loads(sys.argv[5]) if len(sys.argv) > 5 else None
path = os.path.join(d, "live")
async def main():
    gw = Gateway(gwdriver.FakeTransport())
    pers = Persistence(gw.nodes, path)
    if old is not None:
        gwdriver.build_registry(gw, old)
        await pers.save()
        shutil.copy(path, os.path.join(d, "OLD.bin"))
    if mid is not None:
        # a new session: a fresh object loads the file, the registry changes, a save succeeds (that is the
        # "last successfully saved" registry from here on), then the save that is interrupted
        gw = Gateway(gwdriver.FakeTransport())
        pers = Persistence(gw.nodes, path)
        await pers.load()
        gw.nodes.clear()
        gwdriver.build_registry(gw, mid)
        await pers.save()
        shutil.copy(path, os.path.join(d, "OLD.bin"))
    if prefail:
        # an earlier save fails for lack of space (file size limit), the application carries on
        import resource, signal
        signal.signal(signal.SIGXFSZ, signal.SIG_IGN)
        soft, hard = resource.getrlimit(resource.RLIMIT_FSIZE)
        resource.setrlimit(resource.RLIMIT_FSIZE, (8, hard))
        failed = "no error"
        try:
            await pers.save()
        except BaseException as err:
            failed = type(err).__name__
        resource.setrlimit(resource.RLIMIT_FSIZE, (soft, hard))
        open(os.path.join(d, "PREFAIL.txt"), "w").write(failed)
        if failed == "no error":
            # the save claims success although the file could not grow: what is in the file now?
            shutil.copy(path, os.path.join(d, "AFTERPREFAIL.bin"))
    gw.nodes.clear()
    gwdriver.build_registry(gw, new)
    # whatever else the library keeps next to the file at this point is part of every crash state
    os.mkdir(os.path.join(d, "AMBIENT"))
    for name in os.listdir(d):
        full = os.path.join(d, name)
        if os.path.isfile(full) and name not in ("live", "OLD.bin", "PREFAIL.txt", "strace.log"):
            shutil.copy(full, os.path.join(d, "AMBIENT", name))
    open(os.path.join(d, "MARK_BEGIN"), "w").close()
    res = "ok"
    try:
        await pers.save()
    except BaseException as err:
        res = type(err).__name__
    open(os.path.join(d, "MARK_END"), "w").close()
    open(os.path.join(d, "SAVERES.txt"), "w").write(res)
    # what another process finds in the file at the moment save has returned (data still in a buffer of this
    # process is not there): a death right after save returns must not lose the save
    try:
        fd = os.open(path, os.O_RDONLY)
        data = b""
        while True:
            chunk = os.read(fd, 1 << 20)
            if not chunk:
                break
            data += chunk
        os.close(fd)
        with open(os.path.join(d, "AFTER.bin"), "wb") as fil:
            fil.write(data)
    except OSError:
        pass
asyncio.run(main())
"""

SYSCALLS = "openat,open,creat,write,pwrite64,writev,lseek,close,rename,renameat,renameat2,unlink,unlinkat,link,linkat,ftruncate,truncate,fsync,fdatasync"


def _unhex(s: str) -> bytes:
    return bytes(int(h, 16) for h in re.findall(r"\\x([0-9a-f]{2})", s))


def record_ops(old, new, workroot: str, prefail: bool = False, mid=None) -> dict:
    d = tempfile.mkdtemp(prefix="crash-", dir=workroot)
    log = os.path.join(d, "strace.log")
    env = dict(os.environ, PYTHONPATH=os.pathsep.join([common.VERIF, common.REPO_SRC]), PYTHONDONTWRITEBYTECODE="1")
    proc = subprocess.run(["strace", "-f", "--seccomp-bpf", "-e", "trace=" + SYSCALLS, "-xx", "-s", "1000000", "-o", log,
                           sys.executable, "-c", CHILD, d, json.dumps(old), json.dumps(new), "1" if prefail else "0"]
                          + ([json.dumps(mid)] if mid is not None else []),
                          env=env, cwd=d, capture_output=True, text=True, timeout=300)
    if proc.returncode != 0:
        common.machinery_failure("strace child failed: " + proc.stderr[-1500:])
    # join "<unfinished ...>" / "<... resumed>" pairs per pid
    lines = []
    pending = {}
    for raw in open(log, encoding="latin-1"):
        m = re.match(r"(\d+)\s+(.*)", raw.rstrip("\n"))
        if not m:
            continue
        pid, rest = m.group(1), m.group(2)
        if rest.endswith("<unfinished ...>"):
            pending[pid] = rest[: -len("<unfinished ...>")]
            continue
        r = re.match(r"<\.\.\. \w+ resumed>(.*)", rest)
        if r and pid in pending:
            rest = pending.pop(pid) + r.group(1)
        lines.append(rest)
    ops = []
    inside = False
    fdpath = {}
    bufs = []
    prefix = d.rstrip("/") + "/"

    def rel(hexpath):
        p = _unhex(hexpath).decode("utf-8", "replace")
        if not p.startswith("/"):
            p = os.path.join(d, p)
        p = os.path.normpath(p)
        return p[len(prefix):] if p.startswith(prefix) else None

    for ln in lines:
        m = re.match(r"(\w+)\((.*)\)\s+= (-?\d+)", ln)
        if not m:
            continue
        call, args, ret = m.group(1), m.group(2), int(m.group(3))
        if call in ("openat", "open", "creat"):
            pm = re.search(r'"((?:\\x[0-9a-f]{2})*)"', args)
            p = rel(pm.group(1)) if pm else None
            if p == "MARK_BEGIN":
                inside = True
                continue
            if p == "MARK_END":
                inside = False
                continue
            if p is None or ret < 0:
                continue
            if not inside:
                continue
            flags = args.split(",")[2 if call == "openat" else 1] if call != "creat" else "O_WRONLY|O_CREAT|O_TRUNC"
            fdpath[ret] = p
            ops.append({"op": "open", "path": p, "path2": "", "fd": ret, "len": 0, "off": -1,
                        "trunc": "O_TRUNC" in flags, "creat": "O_CREAT" in flags, "append": "O_APPEND" in flags,
                        "excl": "O_EXCL" in flags, "wr": ("O_WRONLY" in flags or "O_RDWR" in flags)})
            continue
        if not inside:
            continue
        base = {"path": "", "path2": "", "fd": -1, "len": 0, "off": -1, "trunc": False, "creat": False,
                "append": False, "excl": False, "wr": False}
        if call in ("write", "pwrite64"):
            fd = int(args.split(",")[0])
            if fd in fdpath and ret > 0:
                bm = re.search(r'"((?:\\x[0-9a-f]{2})*)"', args)
                data = _unhex(bm.group(1))[:ret]
                bufs.append(data)
                off = int(args.rsplit(",", 1)[1]) if call == "pwrite64" else -1
                ops.append(dict(base, op="write", fd=fd, len=ret, off=off))
        elif call == "writev":
            fd = int(args.split(",")[0])
            if fd in fdpath:
                common.machinery_failure("writev on the persistence file is not handled by the recorder")
        elif call == "lseek":
            fd = int(args.split(",")[0])
            if fd in fdpath and ret >= 0:
                ops.append(dict(base, op="lseek", fd=fd, off=ret))
        elif call == "ftruncate":
            fd = int(args.split(",")[0])
            if fd in fdpath and ret == 0:
                ops.append(dict(base, op="ftruncate", fd=fd, len=int(args.split(",")[1])))
        elif call == "truncate":
            common.machinery_failure("truncate(path) is not handled by the recorder")
        elif call == "close":
            fd = int(args)
            if fd in fdpath:
                ops.append(dict(base, op="close", fd=fd))
                del fdpath[fd]
        elif call in ("rename", "renameat", "renameat2", "link", "linkat"):
            ps = [rel(x) for x in re.findall(r'"((?:\\x[0-9a-f]{2})*)"', args)]
            if ret == 0 and len(ps) == 2 and ps[0] is not None and ps[1] is not None:
                ops.append(dict(base, op="rename" if call.startswith("rename") else "link", path=ps[0], path2=ps[1]))
        elif call in ("unlink", "unlinkat"):
            pm = re.search(r'"((?:\\x[0-9a-f]{2})*)"', args)
            p = rel(pm.group(1)) if pm else None
            if ret == 0 and p is not None:
                ops.append(dict(base, op="unlink", path=p))
        elif call in ("fsync", "fdatasync"):
            fd = int(args)
            if fd in fdpath:
                ops.append(dict(base, op="fsync", fd=fd))
    oldbytes = None
    if old is not None:
        with open(os.path.join(d, "OLD.bin"), "rb") as fil:
            oldbytes = fil.read()
    try:
        with open(os.path.join(d, "AFTER.bin" if os.path.exists(os.path.join(d, "AFTER.bin")) else "live"), "rb") as fil:
            newbytes = fil.read()
    except OSError:
        newbytes = None
    with open(os.path.join(d, "SAVERES.txt")) as fil:
        saveres = fil.read()
    prefail_claim = None
    if os.path.exists(os.path.join(d, "AFTERPREFAIL.bin")):
        with open(os.path.join(d, "AFTERPREFAIL.bin"), "rb") as fil:
            prefail_claim = fil.read()
    ambient = {}
    amb = os.path.join(d, "AMBIENT")
    if os.path.isdir(amb):
        for name in os.listdir(amb):
            with open(os.path.join(amb, name), "rb") as fil:
                ambient[name] = fil.read()
    shutil.rmtree(d, ignore_errors=True)
    return {"ops": ops, "bufs": bufs, "old": oldbytes, "new": newbytes, "saveres": saveres, "ambient": ambient,
            "prefail_claim": prefail_claim}


def complete_on_return(loop, rec: dict, newp, workdir: str) -> str | None:
    """A save that returned normally must have left the registry in the file."""
    if rec["saveres"] != "ok":
        return "save raised " + rec["saveres"]
    if rec["new"] is None:
        return "no file after save returned"
    d = tempfile.mkdtemp(prefix="post-", dir=workdir)
    with open(os.path.join(d, "live"), "wb") as fil:
        fil.write(rec["new"])
    status, loaded = real_load(loop, os.path.join(d, "live"))
    shutil.rmtree(d, ignore_errors=True)
    if status != "ok" or json.dumps(loaded, sort_keys=True) != json.dumps(newp, sort_keys=True):
        return f"after save returned the file loads to {status if status != 'ok' else 'another registry'}"
    return None


def crash_states(rec: dict, block: int, workdir: str) -> tuple[list, dict]:
    path = os.path.join(workdir, "crash-rec.json")
    with open(path, "w") as fil:
        json.dump({"ops": rec["ops"], "oldlen": len(rec["old"]) if rec["old"] is not None else -1, "block": block}, fil)
    out = tlc.run(workdir, "SaveCrash", "SaveCrash.cfg", workers=1, env={"TRACE_FILE": path})
    summ = tlc.summary(out)
    if summ["error"] or summ["violated"] or not summ["distinct"]:
        common.machinery_failure(f"SaveCrash failed:\n{out[-3000:]}")
    states = [json.loads(json.loads(line[len('<<"CRASH", '):-2])) for line in out.splitlines() if line.startswith('<<"CRASH"')]
    return states, summ


def materialise(state: dict, rec: dict, d: str) -> None:
    for name, data in rec.get("ambient", {}).items():      # files that were there before the save began
        with open(os.path.join(d, name), "wb") as fil:
            fil.write(data)
    for name, runs in state["files"]:
        data = bytearray()
        for src, first, count in runs:
            if src == 0:
                data += rec["old"][first - 1: first - 1 + count]
            elif src == -1:
                data += b"\0" * count
            else:
                data += rec["bufs"][src - 1][first - 1: first - 1 + count]
        with open(os.path.join(d, name), "wb") as fil:
            fil.write(bytes(data))


def real_load(loop, path: str):
    tr = FakeTransport()
    gw = Gateway(tr, Config(persistence_file=path))
    try:
        loop.run_until_complete(asyncio.wait_for(gw.persistence.load(), 20))
        return "ok", proj(gw)["nodes"]
    except PersistenceReadError:
        return "unreadable", None
    except BaseException as err:  # noqa: BLE001
        return "other:" + type(err).__name__, None


def node(nid, **kw):
    base = {"type": 17, "ver": "2.0", "bat": 0, "sn": "", "sv": "", "hb": 0, "sl": False, "rb": False, "ch": []}
    base.update(kw)
    return [nid, base]


REGS = {
    "empty": [],
    "one": [node(1, sn="kitchen", ch=[[0, {"type": 6, "desc": "t", "vals": [[0, "21.5"]]}]])],
    "two": [node(1, sn="kitchen", ch=[[0, {"type": 6, "desc": "t", "vals": [[0, "21.5"]]}]]), node(2, bat=57, sl=True)],
    "one-changed": [node(1, sn="kitchen", bat=58, ch=[[0, {"type": 6, "desc": "t", "vals": [[0, "22.0"]]}]])],
    "large": [node(i, sn="node %d" % i, ch=[[c, {"type": 6, "desc": "", "vals": [[0, str(i * c)]]}] for c in range(3)]) for i in range(1, 9)],
}
PAIRS_QUICK = [("one", "two"), ("two", "one"), ("one", "one-changed"), (None, "one"), ("empty", "one"),
               ("one", "two", "after-failed-save"), ("two", "large", "after-load")]
PAIRS_THOROUGH = PAIRS_QUICK + [("one", "empty"), ("two", "large"), ("large", "two"), ("large", "one"), ("one-changed", "one")]


def classify(state, rec, status, loaded, oldp, newp) -> str | None:
    """None when the crash state loads to the old or the new registry."""
    norm = lambda x: json.dumps(x, sort_keys=True)  # noqa: E731
    if status == "ok" and (norm(loaded) == norm(newp) or (oldp is not None and norm(loaded) == norm(oldp))):
        return None
    if status == "ok" and oldp is None and loaded == []:
        return None  # there was no saved registry before: an empty registry is the "old" one
    return status if status != "ok" else ("empty-registry" if loaded == [] else "other-registry")


def signature(state, rec, outcome) -> dict:
    files = dict((n, r) for n, r in state["files"])
    live = files.get("live")
    opened_trunc = any(o["op"] == "open" and o["path"] == "live" and o["trunc"] for o in rec["ops"][: state["pc"] - 1 + (1 if state["part"] >= 0 else 0)])
    if live is None:
        shape = "live-missing"
    elif live == []:
        shape = "live-empty"
    elif any(r[0] == -1 for r in live):
        shape = "live-zero-filled"
    elif all(r[0] >= 1 for r in live) and len(live) == 1 and live[0][1] == 1:
        shape = "live-prefix-of-new-data"
    else:
        shape = "live-mixed"
    extra = sorted(n for n in files if n != "live")
    return {"live": shape, "in_place_truncate": opened_trunc, "other_files": bool(extra), "outcome": outcome}


def check(prop: str) -> int:
    common.enter_scratch()
    tier = common.tier()
    rep = common.Report("C15", tier)
    workdir = tlc.scratch()
    loop = asyncio.new_event_loop()
    try:
        tlc.stage(workdir)
        pairs = PAIRS_QUICK if tier == "quick" else PAIRS_THOROUGH
        block = 64 if tier == "quick" else 1
        total = 0
        shapes = set()
        import concurrent.futures

        def prepare(pair):
            oldname, newname = pair[0], pair[1]
            old = REGS[oldname] if oldname else None
            sub = tempfile.mkdtemp(prefix="pair-", dir=workdir)
            tlc.stage(sub)
            mode = pair[2] if len(pair) > 2 else ""
            if mode == "after-load":
                # session: load the saved file, change, save, then the interrupted save: "old" is the registry saved last
                rec = record_ops(old, REGS[newname], sub, mid=REGS["one-changed"])
                old = REGS["one-changed"]
            else:
                rec = record_ops(old, REGS[newname], sub, prefail=(mode == "after-failed-save"))
            if not rec["ops"] or mode == "after-failed-save":
                return old, rec, [], {"distinct": 0, "generated": 0, "depth": 0}
            states, summ = crash_states(rec, block, sub)
            return old, rec, states, summ

        with concurrent.futures.ThreadPoolExecutor(max_workers=len(pairs)) as pool:
            prepared = list(pool.map(prepare, pairs))
        for pair, (old, rec, states, summ) in zip(pairs, prepared):
            oldname, newname = pair[0], pair[1]
            bad = complete_on_return(loop, rec, _proj_of(REGS[newname]), workdir)
            if not bad and rec.get("prefail_claim") is not None:
                # the earlier save returned normally although the file size limit was 8 bytes: then the file must hold the registry
                claim = dict(rec, new=rec["prefail_claim"], saveres="ok")
                bad2 = complete_on_return(loop, claim, _proj_of(old) if old is not None else [], workdir)
                if bad2:
                    bad = "a save that could not write reported success: " + bad2
            if bad:
                rep.violation({"live": "save-incomplete-on-return", "after_failed_save": pair[2:] == ("after-failed-save",)},
                              {"kind": "save-crash", "old": old, "new": REGS[newname], "ops": rec["ops"], "crash_state": {"pc": 0, "part": -1, "files": []},
                               "load_outcome": bad},
                              f"saving {newname} over {oldname}{' after an earlier save failed for lack of space' if pair[2:] == ('after-failed-save',) else ''}: {bad}; "
                              f"operations recorded: {[o['op'] for o in rec['ops']]}")
                continue
            if pair[2:] == ("after-failed-save",):
                total += 1
                continue
            if pair[2:] == ("after-load",):
                oldname = "one-changed (saved after loading " + str(pair[0]) + ")"
            rep.add_tlc(f"SaveCrash old={oldname} new={newname} block={block}", summ,
                        {"recorded_ops": [o["op"] + (":" + o["path"] if o["path"] else "") for o in rec["ops"]]})
            # reference projections of old / new
            oldp = _proj_of(old) if old is not None else None
            newp = _proj_of(REGS[newname])
            for st in states:
                total += 1
                d = tempfile.mkdtemp(prefix="crash-state-", dir=workdir)
                materialise(st, rec, d)
                status, loaded = real_load(loop, os.path.join(d, "live"))
                shutil.rmtree(d, ignore_errors=True)
                shapes.add(json.dumps(st["files"]))
                bad = classify(st, rec, status, loaded, oldp, newp)
                if bad:
                    sig = signature(st, rec, bad)
                    rep.violation(sig, {"kind": "save-crash", "old": old, "new": REGS[newname], "ops": rec["ops"],
                                        "mode": pair[2] if len(pair) > 2 else "", "first": REGS[pair[0]] if pair[0] else None,
                                        "crash_state": st, "load_outcome": bad},
                                  f"crash after operation {st['pc'] - 1} of {len(rec['ops'])} (+{st['part']} bytes of the next write) "
                                  f"saving {newname} over {oldname}: load gives {bad}; live file: {sig['live']}")
            rep.sample({"old": oldname, "new": newname, "ops": [[o["op"], o["path"] or o["fd"], o["len"]] for o in rec["ops"]],
                        "crash_states": len(states)})
        rep.add_traces(total)
        rep.cov["evaluations"] = total
        rep.cov["distinct_nontrivial"] = len(shapes)
        rep.cov["rule"] = "crash states = every reachable state of SaveCrash.tla over the recorded operations (between operations, inside each write at block multiples); distinct by directory content"
        rep.cov["exhaustive"] = (block == 1)
        rep.assumptions += ["process death, not power loss: data handed to the OS survives, un-synced data is not lost or reordered",
                            "the operation sequence is the one strace records for the pairs of registries listed; partial writes at multiples of %d bytes" % block]
        return rep.finish()
    finally:
        loop.close()
        shutil.rmtree(workdir, ignore_errors=True)


def _proj_of(nodes):
    tr = FakeTransport()
    gw = Gateway(tr)
    gwdriver.build_registry(gw, nodes)
    return proj(gw)["nodes"]


def replay(doc: dict) -> int:
    """Re-record the operations of save for the same pair of registries on the current tree, enumerate the
    crash states again and report those at the same crash point (known findings are named, not reported)."""
    common.enter_scratch()
    workdir = tlc.scratch()
    loop = asyncio.new_event_loop()
    try:
        tlc.stage(workdir)
        if doc.get("mode") == "after-load":
            rec = record_ops(doc.get("first"), doc["new"], workdir, mid=doc["old"])
        else:
            rec = record_ops(doc["old"], doc["new"], workdir)
        print("operations of save now:", [[o["op"], o["path"] or o["fd"], o["len"]] for o in rec["ops"]])
        newp = _proj_of(doc["new"])
        oldp = _proj_of(doc["old"]) if doc["old"] is not None else None
        bad_ret = complete_on_return(loop, rec, newp, workdir)
        if bad_ret:
            print("save complete on return:", bad_ret)
            print("VIOLATION property=C15 replay=(this file)")
            return 1
        states, _ = crash_states(rec, 1, workdir)
        want = (doc["crash_state"].get("pc"), doc["crash_state"].get("part"))
        rc = 0
        seen = 0
        for st in states:
            if (st["pc"], st["part"]) != want and want[0] != 0:
                continue
            seen += 1
            d = tempfile.mkdtemp(prefix="crash-state-", dir=workdir)
            materialise(st, rec, d)
            status, loaded = real_load(loop, os.path.join(d, "live"))
            bad = classify(st, rec, status, loaded, oldp, newp)
            if not bad:
                print(f"crash point {want}: loads to the old or the new registry")
                continue
            sig = signature(st, rec, bad)
            known = [k for k in common.known_findings("C15") if all(sig.get(a) == b for a, b in k.get("signature", {}).items())]
            if known:
                print(f"crash point {want}: {bad} - KNOWN-FINDING: {known[0]['description'][:120]}")
            else:
                print(f"crash point {want}: load gives {bad}; live file: {sig['live']}")
                rc = 1
        if not seen:
            print(f"crash point {want} does not exist in the current operation sequence")
        if rc:
            print("VIOLATION property=C15 replay=(this file)")
        return rc
    finally:
        loop.close()
        shutil.rmtree(workdir, ignore_errors=True)
