"""./check selftest - guards against vacuous formulas and an unbound specification.

1. Mutant specifications: for each checked formula a deliberately broken variant of the action
   it constrains is produced by textual substitution in a scratch copy of the module; TLC must
   report exactly that formula violated.
2. Binding demonstration: real executions are recorded, one logged field is corrupted or one
   event is dropped, and the trace / monitor specification must reject it (and accept the
   uncorrupted recording).
"""
from __future__ import annotations

import copy
import json
import os
import shutil

from . import common, corecheck, gwdriver, tlc

MUTANTS = [
    # (name, module file, old text, new text, MC module, cfg, cfg edits, formula expected to be violated)
    ("flush releases every node's commands", "MySensorsCore.tla",
     "        ELSE {[rel |-> parked, relFail |-> {}, heldRel |-> heldn, heldFail |-> {}],",
     "        ELSE {[rel |-> DOMAIN s.setbuf, relFail |-> {}, heldRel |-> heldn, heldFail |-> {}],",
     "MC_sleepbuf", "MC_sleepbuf.cfg", {"MaxDepth = 4": "MaxDepth = 3"}, "WakeReleasesExactlyThatNode"),
    ("a parked command is also written", "MySensorsCore.tla",
     "            THEN [Quiet(s, Done) EXCEPT !.setbuf = Upd(s.setbuf, KeyOf(m), [ack |-> m.ack, p |-> m.p, sup |-> FALSE])]",
     "            THEN [Quiet(s, Done) EXCEPT !.setbuf = Upd(s.setbuf, KeyOf(m), [ack |-> m.ack, p |-> m.p, sup |-> FALSE]), !.react = <<m>>]",
     "MC_sleepbuf", "MC_sleepbuf.cfg", {"MaxDepth = 4": "MaxDepth = 2"}, "ParkedNotWritten"),
    ("flush releases every node's commands (seen by the ledger refinement)", "MySensorsCore.tla",
     "        ELSE {[rel |-> parked, relFail |-> {}, heldRel |-> heldn, heldFail |-> {}],",
     "        ELSE {[rel |-> DOMAIN s.setbuf, relFail |-> {}, heldRel |-> heldn, heldFail |-> {}],",
     "MC_ledger", "MC_ledger.cfg", {"MaxDepth = 4": "MaxDepth = 3"}, "Refines"),
    ("a second send for a parked key keeps the first value (seen by the ledger refinement)", "MySensorsCore.tla",
     "            THEN [Quiet(s, Done) EXCEPT !.setbuf = Upd(s.setbuf, KeyOf(m), [ack |-> m.ack, p |-> m.p, sup |-> FALSE])]",
     "            THEN [Quiet(s, Done) EXCEPT !.setbuf = IF KeyOf(m) \\in DOMAIN s.setbuf THEN s.setbuf ELSE Upd(s.setbuf, KeyOf(m), [ack |-> m.ack, p |-> m.p, sup |-> FALSE])]",
     "MC_ledger", "MC_ledger.cfg", {"MaxDepth = 4": "MaxDepth = 3"}, "LedgerInv|Refines|LedgerStepProps"),
    ("a request is written although one is outstanding (seen by the request-rule refinement)", "MySensorsCore.tla",
     "        ask == Is2x(s.proto) /\\ IsMissing(b.out) /\\ m.n \\notin b.asked",
     "        ask == Is2x(s.proto) /\\ IsMissing(b.out)",
     "MC_presrule", "MC_presrule.cfg", {"MaxDepth = 4": "MaxDepth = 3"}, "RuleInv|Refines|RuleStepProps"),
    ("a failed request counts as sent (seen by the request-rule refinement)", "MySensorsCore.tla",
     "         asked  |-> IF presOk THEN b.asked \\cup {m.n} ELSE b.asked,",
     "         asked  |-> IF ask THEN b.asked \\cup {m.n} ELSE b.asked,",
     "MC_presrule", "MC_presrule.cfg", {"MaxDepth = 4": "MaxDepth = 3"}, "RuleInv|Refines|RuleStepProps"),
    ("allocate node count + 1 (seen by the id-rule refinement)", "MySensorsCore.tla",
     "    IF hint.has THEN {hint.id} ELSE {i \\in 0..MaxNodeId : IdValid(s, i)}",
     "    IF hint.has THEN {hint.id} ELSE {Cardinality(DOMAIN s.nodes) + 1}",
     "MC_idrule", "MC_idrule.cfg", {}, "RuleInv|Refines|RuleStepProps"),
    ("allocate node count + 1", "MySensorsCore.tla",
     "    IF hint.has THEN {hint.id} ELSE {i \\in 0..MaxNodeId : IdValid(s, i)}",
     "    IF hint.has THEN {hint.id} ELSE {Cardinality(DOMAIN s.nodes) + 1}",
     "MC_ids", "MC_ids.cfg", {}, "IdsFreshInRangeDistinct|RegistryStepIsTheReport|NodesNeverRemoved"),
    ("never re-arm the presentation request", "MySensorsCore.tla",
     "EXCEPT !.asked = IF ch.keep /\\ ~Is2x(s.proto) THEN s.asked ELSE s.asked \\ {m.n}]",
     "EXCEPT !.asked = s.asked]",
     "MC_presreq", "MC_presreq.cfg", {}, "PresentationRearms"),
    ("record the request before the write succeeded", "MySensorsCore.tla",
     "        presOk == ask /\\ ~ch.presFail", "        presOk == ask",
     "MC_presreq", "MC_presreq.cfg", {}, "PresRequestRule"),
    ("full version comparison (x.y.0 < x.y)", "MySensorsCore.tla",
     "    IF major > 2 \\/ (major = 2 /\\ minor >= 2) THEN \"2.2\"", "    IF major > 2 \\/ (major = 2 /\\ minor > 2) THEN \"2.2\"",
     "MC_version", "MC_version.cfg", {}, "SelectIsNewestNotNewer"),
    ("mutate the registry before the missing-child check", "MySensorsCore.tla",
     "    ELSE IF m.c \\notin DOMAIN s.nodes[m.n].ch THEN Fail(s, {\"MissingChild\"}, m.c)\n    ELSE Res(s, [s.nodes EXCEPT ![m.n].ch[m.c].vals = Upd(@, m.t, m.p)], Yield(m),",
     "    ELSE IF m.c \\notin DOMAIN s.nodes[m.n].ch THEN [Fail(s, {\"MissingChild\"}, m.c) EXCEPT !.nodes = [s.nodes EXCEPT ![m.n].bat = 1]]\n    ELSE Res(s, [s.nodes EXCEPT ![m.n].ch[m.c].vals = Upd(@, m.t, m.p)], Yield(m),",
     "MC_registry", "MC_registry.cfg", {}, "ErrorsPreserveRegistry"),
    ("reply to a req addressed to node 0", "MySensorsCore.tla",
     "             IF m.t \\in DOMAIN vals THEN <<Msg(m.n, m.c, C_SET, 0, m.t, vals[m.t])>> ELSE <<>>)",
     "             IF m.t \\in DOMAIN vals THEN <<Msg(0, m.c, C_SET, 0, m.t, vals[m.t])>> ELSE <<>>)",
     "MC_reactions", "MC_reactions.cfg", {}, "ReactionAddressedToAsker"),
    ("version query although the version is known", "MySensorsCore.tla",
     "NeedsQuery(m, ver) == ver = NoVer /\\", "NeedsQuery(m, ver) == ",
     "MC_reactions", "MC_reactions.cfg", {}, "NoQueryOnceKnown|OnlySpecifiedReactions"),
    ("send silently drops internal commands for unknown nodes", "MySensorsCore.tla",
     "            ELSE [Quiet(s, Done) EXCEPT !.react = <<m>>]\n\nSendJunk",
     "            ELSE IF m.n \\notin DOMAIN s.nodes THEN Quiet(s, Done) ELSE [Quiet(s, Done) EXCEPT !.react = <<m>>]\n\nSendJunk",
     "MC_send", "MC_send.cfg", {}, "SendTrichotomy"),
    ("no heartbeat exception in the version comparison", "Stable.tla",
     "                   /\\ ~HeartbeatException(Alphabet[i], ra, pair[1], pair[2])\n", "",
     "MC_stable", "MC_stable.cfg", {}, "VersionStable"),
    ("flush forgets the key unconditionally", "FlushRace.tla", None, None,
     "MC_race", "MC_race.cfg", {'PopMode = "identity"': 'PopMode = "bykey"', "ACTION_CONSTRAINT EmitSchedule\n": ""}, "NoLostUpdate"),
    ("flush forgets before writing", "FlushRace.tla", None, None,
     "MC_race", "MC_race.cfg", {'PopMode = "identity"': 'PopMode = "before"', "ACTION_CONSTRAINT EmitSchedule\n": ""}, "NoLostUpdate"),
    ("flush forgets before writing and the write fails (C08 under concurrency)", "FlushRace.tla", None, None,
     "MC_race", "MC_race_fault.cfg", {'PopMode = "identity"': 'PopMode = "before"', "ACTION_CONSTRAINT EmitSchedule\n": "", "Senders <- S2": "Senders <- S1"}, "NoLostUpdate"),
    ("writers wait for drain before handing their bytes over", "WriteOrder.tla", None, None,
     "MC_writeorder", "MC_writeorder.cfg", {'Mode = "write_first"': 'Mode = "drain_first"', "ACTION_CONSTRAINT EmitSchedule\n": ""}, "InOrder"),
    ("stop cancels the saver", "Lifecycle.tla", None, None,
     "MC_lifecycle", "MC_lifecycle.cfg", {'StopMode = "event"': 'StopMode = "cancel"', "ACTION_CONSTRAINT EmitSchedule\n": ""}, "*"),
    ("connect failure does not stop persistence", "Lifecycle.tla", None, None,
     "MC_lifecycle", "MC_lifecycle.cfg", {"GuardConnect = TRUE": "GuardConnect = FALSE", "ACTION_CONSTRAINT EmitSchedule\n": ""}, "NoTaskLeft"),
    ("a read returns the line without consuming it", "Stream.tla",
     "                  /\\ rbuf' = SubSeq(rbuf, FirstNL(rbuf) + 1, Len(rbuf))", "                  /\\ rbuf' = rbuf",
     "MC_stream", "MC_stream.cfg", {"ACTION_CONSTRAINT Emit\n": ""}, "ChunkingIndependent"),
    ("reads are served last-in first-out", "Mqtt.tla",
     "            /\\ reads' = Append(reads, Head(queue)) /\\ queue' = Tail(queue) /\\ pending' = FALSE",
     "            /\\ reads' = Append(reads, queue[Len(queue)]) /\\ queue' = SubSeq(queue, 1, Len(queue) - 1) /\\ pending' = FALSE",
     "MC_mqtt", "MC_mqtt.cfg", {"ACTION_CONSTRAINT Emit\n": ""}, "Fifo"),
    ("decoder splits at every delimiter", "Codec.tla",
     "        f == SplitN(s, SEMI, 5)", "        f == SplitN(s, SEMI, 50)",
     "MC_codec_msgs", "MC_codec_msgs.cfg", {"INVARIANT EmitCase\n": ""}, "LawRoundTrip"),
]


def run_mutants() -> tuple[int, int]:
    ok = bad = 0
    for name, fname, old, new, module, cfg, edits, expect in MUTANTS:
        if module is None:
            continue
        work = tlc.scratch()
        try:
            tlc.stage(work)
            if old is not None:
                path = os.path.join(work, fname)
                text = open(path).read()
                if old not in text:
                    print(f"FAIL mutant '{name}': text to replace not found in {fname}")
                    bad += 1
                    continue
                with open(path, "w") as fil:
                    fil.write(text.replace(old, new, 1))
            ctext = open(os.path.join(work, cfg)).read()
            for a, b in (edits or {}).items():
                if a not in ctext:
                    print(f"FAIL mutant '{name}': cfg text {a!r} not found")
                ctext = ctext.replace(a, b)
            ctext = ctext.replace("ACTION_CONSTRAINT Emit\n", "")
            with open(os.path.join(work, "mutant.cfg"), "w") as fil:
                fil.write(ctext)
            out = tlc.run(work, module, "mutant.cfg", workers=8, timeout=600)
            summ = tlc.summary(out)
            hit = summ["violated"]
            if (expect == "*" and hit) or any(h in expect.split("|") for h in hit):
                print(f"ok   mutant '{name}': TLC reports {hit[0]} violated")
                ok += 1
            else:
                print(f"FAIL mutant '{name}': expected {expect} violated, TLC says violated={hit} error={(summ['error'] or '')[:300]}")
                bad += 1
        finally:
            shutil.rmtree(work, ignore_errors=True)
    return ok, bad


def binding_demo() -> tuple[int, int]:
    ok = bad = 0
    init = {"metric": True, "ver": "2.0", "proto": "2.0", "nodes": []}
    events = [
        dict(k="recv", n=1, c=255, cmd=0, ack=0, t=17, p="2.0"),
        dict(k="recv", n=1, c=0, cmd=0, ack=0, t=6, p="temp"),
        dict(k="recv", n=1, c=0, cmd=1, ack=0, t=0, p="21.5"),
        dict(k="recv", n=1, c=255, cmd=3, ack=0, t=22, p="1"),
        dict(k="send", n=1, c=0, cmd=1, ack=0, t=0, p="22", buf=True),
        dict(k="recv", n=1, c=0, cmd=2, ack=0, t=0, p=""),
        dict(k="recv", n=2, c=0, cmd=1, ack=0, t=0, p="x"),
        dict(k="recv", n=1, c=255, cmd=3, ack=0, t=22, p="2"),
    ]
    tr = gwdriver.run_history(init, events)
    full = {"family", "afterError", "outcome", "registry", "version", "gate", "react", "sets", "pres", "ids", "sendres"}

    def verdict(trace):
        return tlc.validate([{"init": trace["init"], "events": trace["events"]}], full, shards=1)["verdicts"][0][0]

    cases = [("the uncorrupted recording", lambda t: t, "accept")]

    def c1(t):
        t["events"][2]["post"]["nodes"][0][1]["ch"][0][1]["vals"][0][1] = "99"
        return t

    def c2(t):
        t["events"][7]["wr"] = []
        return t

    def c3(t):
        del t["events"][4]
        return t

    def c4(t):
        t["events"][6]["out"]["id"] = 7
        return t

    def c5(t):
        t["events"][5]["wr"][0]["n"] = 0
        return t

    cases += [("a stored value changed in one logged registry", c1, "reject"),
              ("the release write at the second wake removed (hook removed)", c2, "reject"),
              ("the send event dropped: the released command has no origin", c3, "reject"),
              ("the id in the missing-node error changed", c4, "reject"),
              ("the reply to the req re-addressed to node 0", c5, "reject")]
    for name, fn, want in cases:
        got = verdict(fn(copy.deepcopy(tr)))
        if got == want:
            print(f"ok   binding: {name} -> {got}")
            ok += 1
        else:
            print(f"FAIL binding: {name} -> {got}, expected {want}")
            bad += 1
    # the executions recorded from the repository's own tests: accepted as recorded, rejected when one field is changed
    from . import suite
    straces = [t for t in suite.as_traces(suite.record()) if t["events"]]

    def sverdicts(trs):
        return [v[0] for v in tlc.validate([{"init": t["init"], "events": t["events"]} for t in trs], full, shards=2)["verdicts"]]

    accepted = sverdicts(straces).count("accept")
    mutated = []
    for t in straces:
        t = copy.deepcopy(t)
        e = t["events"][-1]
        if e["wr"]:
            e["wr"][0]["p"] += "x"          # a written payload altered
        elif e["out"]["k"] == "yield":
            e["out"]["m"]["p"] += "x"       # the yielded payload altered
        elif e["out"]["k"] == "err":
            e["out"]["k"], e["out"]["cls"] = "ok", ""   # the error swallowed
        else:
            continue
        mutated.append(t)
    rejected = sverdicts(mutated).count("reject")
    for name, good in ((f"{len(straces)} executions recorded from the repository's tests -> {accepted} accepted", accepted == len(straces) and accepted > 100),
                       (f"one observable altered in each of {len(mutated)} of them -> {rejected} rejected", rejected == len(mutated) and rejected > 100)):
        print(("ok   " if good else "FAIL ") + "binding: " + name)
        ok, bad = ok + good, bad + (not good)
    return ok, bad


def main() -> int:
    common.enter_scratch()
    ok1, bad1 = run_mutants()
    ok2, bad2 = binding_demo()
    print(f"selftest: {ok1 + ok2} ok, {bad1 + bad2} failed")
    return 0 if bad1 + bad2 == 0 else 2
