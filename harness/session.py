"""Beyond the listed properties: the CLI session loop (cli/helper.py start_gateway), decided with
spec/Session.tla (model-checked, covers emitted) and spec/SessionTrace.tla (real runs judged).
Invoked as `./check session`; it is not tied to one of the listed properties.
"""
from __future__ import annotations

import asyncio
import json
import multiprocessing
import os
import re
import shutil

from aiomysensors import Gateway

from . import common, corecheck, gwdriver, tlc


def run_session(job) -> dict:
    import logging
    logging.disable(logging.CRITICAL)   # the CLI logs every error with a traceback
    from aiomysensors.cli.helper import start_gateway  # imported here: the cli package configures logging on import
    init, events = job
    loop = asyncio.new_event_loop()
    tr = gwdriver.FakeTransport()
    lines = [ev["line"] if ev["k"] == "recvbad" else gwdriver.line_of(ev) for ev in events]
    tr.lines = list(lines) + ["sentinel that ends the session\n"]
    gw = Gateway(tr)
    tr.gateway = gw
    if init["ver"] != "none":
        gw.protocol_version = init["ver"]

    async def factory():
        return gw

    result = "returned"
    try:
        loop.run_until_complete(asyncio.wait_for(start_gateway(factory), 5))
    except asyncio.TimeoutError:
        result = "hung"
    except BaseException as err:  # noqa: BLE001
        result = "raised:" + type(err).__name__
    consumed = len(lines) + 1 - len(tr.lines)
    loop.close()
    sentinel = {"k": "recvbad", "n": 0, "c": 0, "cmd": 0, "ack": 0, "t": 0, "p": "sentinel", "pc": [], "buf": False, "fault": "", "fk": 0}
    evs = [dict({"k": e["k"], "n": e.get("n", 0), "c": e.get("c", 0), "cmd": e.get("cmd", 0), "ack": e.get("ack", 0), "t": e.get("t", 0),
                 "p": e.get("p", ""), "pc": [ord(c) for c in e.get("p", "")] if e["k"] == "recv" else [], "buf": False, "fault": "", "fk": 0})
           for e in events] + [sentinel]
    return {"init": {"ver": init["ver"], "proto": init["proto"]}, "events": evs, "consumed": consumed,
            "final": gwdriver.proj(gw)["nodes"], "disconnects": tr.disconnected, "result": result,
            "lines": lines}


def check(_prop: str = "session") -> int:
    common.enter_scratch()
    workdir = tlc.scratch()
    try:
        tlc.stage(workdir)
        cfg = "MC_session.cfg"
        out = tlc.run(workdir, "MC_session", cfg, workers=1)
        summ = tlc.summary(out)
        if summ["violated"] or summ["error"]:
            common.machinery_failure("Session.tla failed:\n" + out[-2000:])
        alpha = None
        for line in out.splitlines():
            pass
        covers = sorted({tuple(h) for h in tlc.cover_lines(out)})
        # the alphabet / inits of MC_session, mirrored here (events are plain received lines)
        alphabet = [
            dict(k="recv", n=1, c=255, cmd=0, ack=0, t=17, p="2.0"), dict(k="recv", n=1, c=0, cmd=0, ack=0, t=6, p="a"),
            dict(k="recv", n=1, c=0, cmd=1, ack=0, t=0, p="a"), dict(k="recv", n=2, c=0, cmd=1, ack=0, t=0, p="a"),
            dict(k="recv", n=1, c=1, cmd=1, ack=0, t=0, p="a"), dict(k="recv", n=1, c=255, cmd=3, ack=0, t=99, p=""),
            dict(k="recv", n=1, c=255, cmd=3, ack=0, t=0, p="57"), dict(k="recv", n=1, c=255, cmd=3, ack=0, t=0, p="abc"),
            dict(k="recv", n=255, c=255, cmd=3, ack=0, t=3, p=""), dict(k="recvbad", p="short", line="1;2;3\n"),
        ]
        inits = [dict(ver=v, proto=v) for v in ("1.4", "2.0", "2.2")]
        jobs = [(inits[h[0] - 1], [alphabet[i - 1] for i in h[1:]]) for h in covers]
        ctx = multiprocessing.get_context("fork")
        with ctx.Pool(16, initializer=common.limit_worker) as pool:
            runs = pool.map(run_session, jobs, chunksize=32)
        path = os.path.join(workdir, "session-runs.json")
        with open(path, "w") as fil:
            json.dump({"runs": [{k: v for k, v in r.items() if k != "lines"} for r in runs]}, fil)
        out = tlc.run(workdir, "SessionTrace", "SessionTrace.cfg", workers=1, env={"TRACE_FILE": path}, timeout=300)
        summ2 = tlc.summary(out)
        if summ2["error"] or summ2["violated"]:
            common.machinery_failure("SessionTrace failed:\n" + out[out.find("Error:"):][:2000])
        accepted = {int(a) for a in re.findall(r'<<"ACCEPT", (\d+)>>', out)}
        bad = [r for i, r in enumerate(runs, start=1) if i not in accepted]
        print(f"session: model states={summ['distinct']} covers={len(covers)} real sessions={len(runs)} rejected={len(bad)}")
        for r in bad[:5]:
            print("  REJECTED session:", json.dumps({k: r[k] for k in ("init", "lines", "consumed", "disconnects", "result")})[:400])
        return 1 if bad else 0
    finally:
        shutil.rmtree(workdir, ignore_errors=True)
