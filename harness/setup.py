"""setup_cmd: parse every specification module with SANY and import the harness."""
import glob
import os
import subprocess
import sys

from . import tlc


def main() -> int:
    work = tlc.scratch()
    try:
        tlc.stage(work)
        bad = 0
        for path in sorted(glob.glob(os.path.join(work, "*.tla"))):
            proc = subprocess.run(["java", f"-Djava.io.tmpdir={work}", "-cp", tlc._classpath(), "tla2sany.SANY", os.path.basename(path)],
                                  cwd=work, capture_output=True, text=True)
            ok = proc.returncode == 0 and "Semantic errors" not in proc.stdout and "Parse Error" not in proc.stdout \
                and "Fatal errors" not in proc.stdout
            print(("ok   " if ok else "FAIL ") + os.path.basename(path))
            if not ok:
                print(proc.stdout[-1500:])
                bad += 1
        from . import registry  # noqa: F401
        import aiomysensors
        print("harness imports ok; library at", os.path.dirname(aiomysensors.__file__))
        return 2 if bad else 0
    finally:
        import shutil
        shutil.rmtree(work, ignore_errors=True)
