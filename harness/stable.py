"""C19: cross-version stability, decided with spec/Stable.tla (self-composition of the reference,
model-checked by TLC) and spec/StableTrace.tla (two real gateways fed the same history).

Histories are the TLC-emitted transition covers of the focus configurations (registry, reactions,
sleep buffer, send, presentation requests) and seeded random histories, restricted per ordered
pair (older, newer) to the scope C19 states; the specification decides scope, TLC compares
outcome, writes and registry of the two recorded executions step by step.
"""
from __future__ import annotations

import json
import multiprocessing
import os
import random
import re
import shutil

from . import common, corecheck, gwdriver, tlc

PAIRS = [("1.4", "1.5"), ("2.0", "2.1"), ("2.0", "2.2"), ("2.1", "2.2"), ("1.4", "2.0"), ("1.5", "2.0"), ("1.5", "2.2"),
         ("1.4", "2.2"), ("1.5", "2.1"), ("1.4", "2.1")]
IMAX = {"1.4": 14, "1.5": 17, "2.0": 28, "2.1": 28, "2.2": 33}


def in_scope(ev: dict, older: str, newer: str) -> bool:
    if ev["k"] in ("recv", "send") and ev.get("cmd") == 3 and not (0 <= ev["t"] <= IMAX[older]):
        return False
    if ev["k"] in ("recv", "send") and ev.get("cmd") == 4 and not (0 <= ev["t"] <= 5):
        return False
    if ev["k"] == "recv" and ev["cmd"] == 3 and ev["t"] == 14 and older[0] != newer[0]:
        return False
    if ev["k"] == "recv" and ev["cmd"] == 3 and ev["t"] == 2:
        return False
    if ev["k"] == "recv" and ev["cmd"] == 0 and ev["n"] == 0 and ev["c"] == 255:
        return False
    if ev["k"] in ("recvbad", "sendjunk"):
        return True
    return True


def _exec_pair(job):
    init, events, older, newer = job
    out = {}
    for side, ver in (("a", older), ("b", newer)):
        i2 = dict(init, ver=ver, proto=ver)
        tr = gwdriver.run_history(i2, events)
        out[side] = [{"k": e["k"], "n": e["n"], "c": e["c"], "cmd": e["cmd"], "t": e["t"], "p": e["p"],
                      "out": e["out"], "wr": [{k: v for k, v in w.items() if k != "ids"} for w in e["wr"]],
                      "pre": {"nodes": e["pre"]["nodes"]}, "post": {"nodes": e["post"]["nodes"]}} for e in tr["events"]]
    return {"older": older, "newer": newer, "a": out["a"], "b": out["b"],
            "input": {"init": init, "events": [{k: v for k, v in e.items() if k != "obj"} for e in events]}}


def judge(runs, workdir, shards):
    import concurrent.futures

    def one(k):
        part = runs[k::shards]
        if not part:
            return {}, 0
        path = os.path.join(workdir, f"stable-runs-{k}.json")
        with open(path, "w") as fil:
            json.dump({"runs": [{"older": r["older"], "newer": r["newer"], "a": r["a"], "b": r["b"]} for r in part]}, fil)
        out = tlc.run(workdir, "StableTrace", "StableTrace.cfg", workers=1, env={"TRACE_FILE": path})
        os.unlink(path)
        summ = tlc.summary(out)
        if summ["error"] or summ["violated"]:
            common.machinery_failure(f"StableTrace failed:\n{out[out.find('Error:'):][:2500]}")
        ver = {}
        for a, b in re.findall(r'<<"REJECT", (\d+), (\d+)>>', out):
            ver[int(a)] = ("reject", int(b))
        for a in re.findall(r'<<"ACCEPT", (\d+)>>', out):
            ver[int(a)] = ("accept", None)
        if len(ver) != len(part):
            common.machinery_failure(f"StableTrace gave {len(ver)} verdicts for {len(part)} runs:\n{out[-1500:]}")
        return ver, summ["distinct"]

    with concurrent.futures.ThreadPoolExecutor(max_workers=shards) as pool:
        res = list(pool.map(one, range(shards)))
    verdicts = [None] * len(runs)
    for k, (ver, _) in enumerate(res):
        for j, v in ver.items():
            verdicts[k + shards * (j - 1)] = v
    return verdicts, sum(s for _, s in res)


def check(prop: str) -> int:
    common.enter_scratch()
    tier = common.tier()
    rep = common.Report("C19", tier)
    rnd = random.Random(common.seed() * 19 + 19)
    workdir = tlc.scratch()
    try:
        tlc.stage(workdir)
        # design level: the reference itself is version-stable (self-composition)
        cfg = open(os.path.join(workdir, "MC_stable.cfg")).read()
        if tier == "thorough":
            cfg = cfg.replace("MaxDepth = 3", "MaxDepth = 4")
        with open(os.path.join(workdir, "MC_stable_run.cfg"), "w") as fil:
            fil.write(cfg)
        out = tlc.run(workdir, "MC_stable", "MC_stable_run.cfg", workers=8)
        summ = tlc.summary(out)
        if summ["violated"] or summ["error"] or not summ["distinct"]:
            common.machinery_failure(f"Stable.tla: the reference itself is not version-stable:\n{out[-3000:]}")
        rep.add_tlc("MC_stable (self-composition over 9 ordered pairs)", summ)
        # histories
        hists = []
        for focus, dq, dt in (("registry", 3, 4), ("reactions", 2, 2), ("sleepbuf", 3, 4), ("send", 2, 3), ("presreq", 2, 3), ("absurd", 2, 2)):
            depth = dq if tier == "quick" else dt
            mc = corecheck.run_mc(focus, depth, workdir)
            rep.add_tlc(f"MC_{focus} depth {depth}", mc["summary"], {"histories_emitted": len(mc["covers"])})
            covers = mc["covers"]
            cap = 2500 if tier == "quick" else 6000
            if len(covers) > cap:
                covers = rnd.sample(covers, cap)
            for h in covers:
                hists.append(corecheck.concretise(focus, mc, h))
        for _ in range(300 if tier == "quick" else 2000):
            hists.append(corecheck.random_history(rnd, rnd.choice(["C04", "C06", "C07", "C12"]), 40))
        jobs = []
        for k, (init, events) in enumerate(hists):
            npairs = 4 if tier == "thorough" else 2
            pairs = [PAIRS[(k * (2 * j + 1) + 3 * j) % len(PAIRS)] for j in range(npairs)]
            for older, newer in pairs:
                evs = [e for e in events if in_scope(e, older, newer) and not e.get("fault")]
                if evs:
                    jobs.append((init, evs, older, newer))
        ctx = multiprocessing.get_context("fork")
        with ctx.Pool(16, initializer=common.limit_worker) as pool:
            runs = pool.map(_exec_pair, jobs, chunksize=32)
        verdicts, states = judge(runs, workdir, 16)
        rep.cov["states"] += states
        rep.cov["transitions"] += states
        rep.add_traces(len(runs))
        rep.cov["evaluations"] = len(runs)
        rep.cov["distinct_nontrivial"] = len({json.dumps([r["older"], r["newer"], r["input"]], sort_keys=True, default=str) for r in runs if len(r["a"]) > 1})
        rep.cov["rule"] = "pairs of executions (older, newer protocol) of the same in-scope history; histories = TLC transition covers of five focus configurations + random; distinct by (pair, history)"
        rep.cov["pairs"] = sorted({f"{r['older']}->{r['newer']}" for r in runs})
        mid = runs[len(runs) // 2]
        rep.sample({"pair": [mid["older"], mid["newer"]], "events": [{k: e[k] for k in ("k", "n", "c", "cmd", "t", "p")} for e in mid["a"][:6]]})
        for r, v in zip(runs, verdicts):
            if v[0] == "reject":
                i = v[1] - 1
                rep.violation({"k": r["a"][i]["k"], "cmd": r["a"][i]["cmd"], "t": r["a"][i]["t"]},
                              {"kind": "stable-pair", "older": r["older"], "newer": r["newer"], "input": r["input"], "rejected_at": v[1],
                               "older_step": r["a"][i], "newer_step": r["b"][i]},
                              f"protocols {r['older']} and {r['newer']} disagree at event {v[1]} "
                              f"{json.dumps({k: r['a'][i][k] for k in ('k', 'n', 'c', 'cmd', 't', 'p')})}: "
                              f"older {json.dumps([r['a'][i]['out'], r['a'][i]['wr']])[:250]} newer {json.dumps([r['b'][i]['out'], r['b'][i]['wr']])[:250]}")
        rep.assumptions += ["scope per C19: types of the older protocol only, heartbeat response excepted for x -> 2.2, across majors the comparison stops at the first unknown reference and gateway-ready is excluded",
                            "version reports (which switch the protocol itself) are excluded from the compared histories"]
        return rep.finish()
    finally:
        shutil.rmtree(workdir, ignore_errors=True)


def replay(doc: dict) -> int:
    common.enter_scratch()
    inp = doc["input"]
    events = []
    for ev in inp["events"]:
        ev = dict(ev)
        if ev["k"] == "sendjunk":
            ev["obj"] = corecheck.JUNK[ev["p"]]
        events.append(ev)
    run = _exec_pair((inp["init"], events, doc["older"], doc["newer"]))
    work = tlc.scratch()
    try:
        tlc.stage(work)
        verdicts, _ = judge([run], work, 1)
    finally:
        shutil.rmtree(work, ignore_errors=True)
    if verdicts[0][0] == "reject":
        i = verdicts[0][1] - 1
        print("older:", json.dumps([run["a"][i]["out"], run["a"][i]["wr"]])[:400])
        print("newer:", json.dumps([run["b"][i]["out"], run["b"][i]["wr"]])[:400])
        print(f"VIOLATION property=C19 replay=(this file)")
        return 1
    print("the two protocols agree on the recorded history")
    return 0
