"""C17 (and the byte-stream half of C03): serial / TCP transport, decided with spec/Stream.tla.

spec -> code: TLC explores Stream.tla over all byte streams up to a length over a 7-symbol
alphabet (valid / invalid UTF-8, CR, NL), all chunkings of their arrival, reads issued before
and after arrival, EOF - plus a life-cycle configuration (connect / write / disconnect with
faults, use before connect) - and emits one history per abstract transition; each is replayed
on the real TCPTransport and SerialTransport whose connection factory returns a real
asyncio.StreamReader fed in the scheduled chunks and a fake writer.
code -> spec: the recorded operations (also of random byte streams with a small reader limit)
are judged by TLC against StreamTrace.tla.
"""
from __future__ import annotations

import asyncio
import json
import multiprocessing
import os
import random
import re
import shutil

from aiomysensors.exceptions import TransportError
from aiomysensors.transport.serial import SerialTransport
from aiomysensors.transport.tcp import TCPTransport

from . import common, tlc


class FakeWriter:
    """What a transport needs from asyncio.StreamWriter; faults on demand."""

    def __init__(self) -> None:
        self.data = bytearray()
        self.fault = "none"  # none | write | drain | close | wait
        self.closed = False
        self.paused = False          # back pressure: drain() waits until resume()
        self.waiters: list = []

    @property
    def transport(self):
        """The asyncio transport beneath the writer: everything handed over has left (empty send buffer)."""
        writer = self

        class _T:
            def get_write_buffer_size(self):
                return 0

            def is_closing(self):
                return writer.closed

            def get_extra_info(self, *_a, **_k):
                return None

        return _T()

    def write(self, data: bytes) -> None:
        if self.fault == "write":
            raise BrokenPipeError("injected")
        if self.fault == "write_oserror":
            raise OSError(5, "injected I/O error")
        self.data += data

    async def drain(self) -> None:
        # the ways a lost connection surfaces in drain(): reset, timed out (ETIMEDOUT is the builtin TimeoutError), plain OSError
        if self.fault == "drain":
            raise ConnectionResetError("injected")
        if self.fault == "drain_timeout":
            raise TimeoutError(110, "injected: connection timed out")
        if self.fault == "drain_oserror":
            raise OSError(113, "injected: no route to host")
        if self.paused:
            fut = asyncio.get_running_loop().create_future()
            self.waiters.append(fut)
            await fut

    def resume(self) -> None:
        """Like the transport calling resume_writing: waiters are woken through the loop, not run here."""
        self.paused = False
        waiters, self.waiters = self.waiters, []
        for fut in waiters:
            if not fut.done():
                fut.set_result(None)

    def close(self) -> None:
        self.closed = True
        if self.fault == "close":
            raise OSError("injected")

    async def wait_closed(self) -> None:
        if self.fault == "wait":
            raise ConnectionResetError("injected")

    def is_closing(self) -> bool:
        return self.closed

    def get_extra_info(self, *_a, **_k):
        return None


def res_of(err) -> str:
    if isinstance(err, TransportError):
        return "terr"
    return "other:" + type(err).__name__


class StreamRun:
    def __init__(self, kind: str, limit: int) -> None:
        self.loop = asyncio.new_event_loop()
        self._skew = 0.0
        real_clock = self.loop.time
        self.loop.time = lambda: real_clock() + self._skew      # the loop's clock can be moved forward
        self.kind = kind
        self.limit = limit
        self.events: list[dict] = []
        self.reader = None
        self.writer = None
        self.connect_fault = False
        self.reads: dict[int, asyncio.Task] = {}
        self.nread = 0
        self.is_connected = False
        if kind == "tcp":
            self.tr = TCPTransport("host.invalid", 5003)
        else:
            self.tr = SerialTransport("/dev/null-verif", 115200)

        self.connect_hangs = False

        async def factory(*_a, **_k):
            if self.connect_hangs:
                await asyncio.get_running_loop().create_future()      # the peer never answers
            if self.connect_fault:
                raise ConnectionRefusedError("injected")
            self.reader = asyncio.StreamReader(limit=self.limit)
            self.writer = FakeWriter()
            return self.reader, self.writer

        self.factory = factory

    def _patched(self):
        import contextlib
        from unittest import mock

        @contextlib.contextmanager
        def cm():
            with mock.patch("asyncio.open_connection", self.factory), \
                    mock.patch("aiomysensors.transport.serial.open_serial_connection", self.factory), \
                    mock.patch("serial_asyncio.open_serial_connection", self.factory):
                yield
        return cm()

    def settle(self) -> None:
        for _ in range(5):
            self.loop.run_until_complete(asyncio.sleep(0))
        for rid, task in list(self.reads.items()):
            if task.done():
                del self.reads[rid]
                ev = {"op": "read_done", "id": rid, "res": "", "s": []}
                try:
                    val = task.result()
                    if isinstance(val, str):
                        ev["res"], ev["s"] = "line", [ord(c) for c in val]
                    else:
                        ev["res"] = "other:returned " + type(val).__name__
                except asyncio.CancelledError:
                    ev["res"] = "other:CancelledError"
                except BaseException as err:  # noqa: BLE001
                    ev["res"] = res_of(err)
                self.events.append(ev)

    def call(self, coro) -> str:
        try:
            self.loop.run_until_complete(asyncio.wait_for(coro, 2))
            return "ok"
        except BaseException as err:  # noqa: BLE001
            return res_of(err)

    def do(self, cmd: list) -> None:
        op = cmd[0]
        unconnected_probe = op in ("read", "write") and len(cmd) > 1 and cmd[1] == "unconnected"
        if op in ("read", "cancel_read", "write", "cwrite", "feed", "eof", "ioerror", "disconnect") and not unconnected_probe and not self.is_connected:
            return  # the model only uses a connected transport (use before the first connect is probed explicitly)
        if op == "connect":
            if self.is_connected:
                return  # the model connects only a transport that is not connected
            self.connect_fault = not cmd[1]
            with self._patched():
                res = self.call(self.tr.connect())
            self.is_connected = (res == "ok")
            self.events.append({"op": "connect", "fault": not cmd[1], "res": res})
        elif op == "connect_hang":
            # the peer never answers the connection attempt; an hour passes on the loop's clock.  The attempt is either
            # still pending (the caller's business) or has failed as a transport error - nothing else
            if self.is_connected:
                return
            self.connect_hangs = True
            with self._patched():
                task = self.loop.create_task(self.tr.connect())
                for _ in range(5):
                    self.loop.run_until_complete(asyncio.sleep(0))
                self._skew += 3600.0
                for _ in range(10):
                    self.loop.run_until_complete(asyncio.sleep(0))
                if task.done():
                    res = "ok" if (not task.cancelled() and task.exception() is None) else \
                        ("other:CancelledError" if task.cancelled() else res_of(task.exception()))
                else:
                    res = "pending"
                    task.cancel()
                    try:
                        self.loop.run_until_complete(task)
                    except BaseException:  # noqa: BLE001
                        pass
            self.connect_hangs = False
            self.events.append({"op": "connect_hang", "res": res})
        elif op in ("read", "write") and len(cmd) > 1 and cmd[1] == "unconnected":
            coro = self.tr.read() if op == "read" else self.tr.write("1;255;3;0;2;\n")
            self.events.append({"op": op + "_unconnected", "res": self.call(coro)})
        elif op == "feed":
            if self.reader is not None:
                self.reader.feed_data(bytes(cmd[1]))
                self.events.append({"op": "feed", "bytes": list(cmd[1])})
        elif op == "eof":
            if self.reader is not None:
                self.reader.feed_eof()
                self.events.append({"op": "eof"})
        elif op == "ioerror":
            if self.reader is not None:
                self.reader.set_exception(ConnectionResetError("injected"))
                self.events.append({"op": "ioerror"})
        elif op == "cancel_read":
            # the caller gives up waiting for a line (a timeout around read): no byte may be lost to the abandoned call
            if not self.reads:
                return
            rid, task = next(iter(self.reads.items()))
            if task.done():
                return
            task.cancel()
            try:
                self.loop.run_until_complete(task)
            except BaseException:  # noqa: BLE001
                pass
            del self.reads[rid]
            self.events.append({"op": "read_cancelled", "id": rid})
        elif op == "read":
            if self.reads:
                return  # one reader at a time (asyncio streams do not allow concurrent readuntil calls)
            self.nread += 1
            self.reads[self.nread] = self.loop.create_task(self.tr.read())
            self.events.append({"op": "read_start", "id": self.nread})
        elif op == "write":
            text, fault = cmd[1], cmd[2]
            if self.writer is not None:
                self.writer.fault = fault
                before = len(self.writer.data)
            res = self.call(self.tr.write(text))
            peer = list(self.writer.data[before:]) if self.writer is not None else []
            if self.writer is not None:
                self.writer.fault = "none"
            self.events.append({"op": "write", "s": [ord(c) for c in text], "fault": fault, "res": res, "peer": peer})
        elif op == "cwrite":
            # several tasks write concurrently while the peer applies back pressure; call order = creation order
            # (the loop starts tasks first-in first-out).  plan: ["pause"] | ["resume"] | ["start", i, settle?]
            texts, plan = cmd[1], cmd[2]
            if self.writer is None:
                return
            before = len(self.writer.data)
            tasks, order = {}, []
            for step in plan:
                if step[0] == "pause":
                    self.writer.paused = True
                elif step[0] == "resume":
                    self.writer.resume()
                elif step[0] == "settle":
                    for _ in range(5):
                        self.loop.run_until_complete(asyncio.sleep(0))
                elif step[0] == "start":
                    i = step[1]
                    tasks[i] = self.loop.create_task(self.tr.write(texts[i]))
                    order.append(i + 1)
                    if step[2]:
                        for _ in range(5):
                            self.loop.run_until_complete(asyncio.sleep(0))
            self.writer.resume()
            for _ in range(8):
                self.loop.run_until_complete(asyncio.sleep(0))
            results = []
            for i in sorted(tasks):
                t = tasks[i]
                if not t.done():
                    t.cancel()
                    results.append("other:not finished")
                elif t.cancelled():
                    results.append("other:CancelledError")
                elif t.exception() is not None:
                    results.append(res_of(t.exception()))
                else:
                    results.append("ok")
            self.events.append({"op": "cwrite", "texts": [[ord(c) for c in t] for t in texts], "order": order,
                                "results": results, "peer": list(self.writer.data[before:])})
        elif op == "disconnect":
            if self.reads:
                return  # the model disconnects only when no read is outstanding
            if self.writer is not None:
                self.writer.fault = cmd[1]
            self.events.append({"op": "disconnect", "fault": cmd[1], "res": self.call(self.tr.disconnect())})
            self.is_connected = False
        self.settle()

    def finish(self) -> dict:
        self.settle()
        self.events.append({"op": "end"})
        for t in self.reads.values():
            t.cancel()
        self.loop.run_until_complete(asyncio.sleep(0))
        self.loop.close()
        return {"kind": self.kind, "limit": self.limit, "events": self.events}


def run_commands(job) -> dict:
    kind, limit, cmds = job
    run = StreamRun(kind, limit)
    for c in cmds:
        run.do(c)
    res = run.finish()
    res["commands"] = cmds
    return res


def concretise(cover: dict, k: int) -> list:
    stream = cover["stream"]
    pos = 0
    cmds = []
    for h in cover["hist"]:
        op = h[0]
        if op == "connect":
            cmds.append(["connect", bool(h[1])])
        elif op == "arrive":
            cmds.append(["feed", stream[pos:pos + h[1]]])
            pos += h[1]
        elif op == "eof":
            cmds.append(["eof"])
        elif op == "read":
            cmds.append(["read"] if len(h) == 1 else ["read", "unconnected"])
        elif op == "write":
            if len(h) == 2:
                cmds.append(["write", "unconnected"])
            else:
                text = "".join(chr(c) for c in h[1])
                fault = "none" if h[2] else ["write", "drain", "drain_timeout", "drain_oserror", "write_oserror"][k % 5]
                cmds.append(["write", text, fault])
        elif op == "disconnect":
            cmds.append(["disconnect", "none" if h[1] else ("close" if k % 2 else "wait")])
    return cmds


def model_covers(workdir: str, cfgname: str, streams: str | None) -> tuple[list, dict]:
    cfg = open(os.path.join(workdir, cfgname)).read()
    if streams:
        cfg = cfg.replace("Streams <- Streams3", f"Streams <- {streams}")
    run_cfg = cfgname.replace(".cfg", "_run.cfg")
    with open(os.path.join(workdir, run_cfg), "w") as fil:
        fil.write(cfg)
    out = tlc.run(workdir, "MC_stream", run_cfg, workers=1)
    summ = tlc.summary(out)
    if summ["violated"] or summ["error"] or not summ["distinct"]:
        common.machinery_failure(f"Stream.tla ({cfgname}) failed:\n{out[-3000:]}")
    covers = []
    seen = set()
    for line in out.splitlines():
        if line.startswith('<<"COVER"'):
            txt = json.loads(line[len('<<"COVER", '):-2])
            if txt not in seen:
                seen.add(txt)
                covers.append(json.loads(txt))
    return covers, summ


def random_jobs(rnd: random.Random, n: int) -> list:
    jobs = []
    alphabet = [10, 10, 97, 59, 13, 255, 195, 169, 0xE2, 0x82, 0xAC, 0xF0, 0x9F, 0x98, 0x80, 48, 49, 32, 0xC0, 0xED, 0xA0, 0xEF, 0xBB, 0xBF,
                123, 125, 37, 123, 48, 125]     # braces and percent signs: text that ends up inside error messages
    for k in range(n):
        limit = rnd.choice([8, 16, 64, 2 ** 16])
        stream = [rnd.choice(alphabet) for _ in range(rnd.randint(0, 40))]
        if k % 7 == 0:   # lines that begin with a byte-order mark, a lone CR, a NUL
            stream = [0xEF, 0xBB, 0xBF] + stream[:6] + [10, 0xEF, 0xBB, 0xBF, 10, 13, 10, 0, 10] + stream[6:]
        cmds = [["connect", True]]
        if k % 11 == 3:
            cmds = [["connect_hang"], ["connect", True]]
        pos = 0
        for _ in range(rnd.randint(1, 14)):
            r = rnd.random()
            if r < 0.45 and pos < len(stream):
                kk = rnd.randint(1, min(9, len(stream) - pos))
                cmds.append(["feed", stream[pos:pos + kk]])
                pos += kk
            elif r < 0.77:
                cmds.append(["read"])
            elif r < 0.8:
                cmds.append(["cancel_read"])
            elif r < 0.85:
                cmds.append(["write", rnd.choice(["1;255;3;0;2;\n", "é;\n", "\U0001f600\n", ""]), rnd.choice(["none", "none", "write", "drain", "drain_timeout", "drain_oserror", "write_oserror"])])
            elif r < 0.9 and pos >= len(stream):
                cmds.append(["eof"])
            elif r < 0.93:
                cmds.append(["ioerror"])
            elif r < 0.97 and k % 5 == 0:
                cmds += [["disconnect", rnd.choice(["none", "close", "wait"])], ["connect", rnd.random() < 0.7]]
                stream, pos = stream[pos:], 0
        if rnd.random() < 0.5:
            if pos < len(stream):
                cmds.append(["feed", stream[pos:]])
            cmds.append(["eof"])
            cmds += [["read"]] * rnd.randint(0, 3)
        jobs.append(("tcp" if k % 2 else "serial", limit, cmds))
    return jobs


def concurrent_write_jobs(tier: str, workdir: str, rep) -> list:
    """Every complete schedule of WriteOrder.tla (three writers; create / pause / resume / one loop iteration)
    replayed on the real transports: op "cwrite"."""
    out = tlc.run(workdir, "MC_writeorder", "MC_writeorder.cfg", workers=1)
    summ = tlc.summary(out)
    live = tlc.summary(tlc.run(workdir, "MC_writeorder", "MC_writeorder_live.cfg", workers=2))
    if summ["violated"] or summ["error"] or not summ["distinct"] or live["violated"] or live["error"]:
        common.machinery_failure(f"WriteOrder.tla: the model violates its own formulas or TLC failed:\n{out[-2500:]}")
    scheds = sorted({line[len('<<"WSCHEDULE", '):-2] for line in out.splitlines() if line.startswith('<<"WSCHEDULE"')})
    summ["liveness_states"] = live["distinct"]
    rep.add_tlc("MC_writeorder (WriteOrder.tla: concurrent writers under back pressure)", summ, {"schedules_emitted": len(scheds)})
    text_sets = [["1;0;1;0;0;" + "x" * 40 + "\n", "2;0;1;0;0;a\n", "3;0;1;0;0;c\n"], ["é;\n", "\U0001f600\n", "z\n"]]
    jobs = []
    for k, txt in enumerate(scheds):
        plan = []
        for a in json.loads(json.loads(txt)):
            if a[0] == "create":
                plan.append(["start", a[1] - 1, False])
            elif a[0] == "run":
                plan.append(["settle"])
            else:
                plan.append([a[0]])
        for texts in (text_sets if tier == "thorough" else [text_sets[k % 2]]):
            jobs.append(("tcp" if k % 2 else "serial", 2 ** 16, [["connect", True], ["cwrite", texts, plan], ["write", "9;9;9;0;0;after\n", "none"]]))
    return jobs


def judge(runs: list, workdir: str, shards: int):
    import concurrent.futures

    def one(k):
        part = runs[k::shards]
        if not part:
            return {}, 0
        path = os.path.join(workdir, f"stream-runs-{k}.json")
        with open(path, "w") as fil:
            json.dump({"runs": [{"limit": r["limit"], "events": [_norm(e) for e in r["events"]]} for r in part]}, fil)
        out = tlc.run(workdir, "StreamTrace", "StreamTrace.cfg", workers=1, env={"TRACE_FILE": path})
        os.unlink(path)
        summ = tlc.summary(out)
        if summ["error"] or summ["violated"]:
            common.machinery_failure(f"StreamTrace failed:\n{out[out.find('Error:'):][:2500]}")
        ver = {}
        for a, b in re.findall(r'<<"REJECT", (\d+), (\d+)>>', out):
            ver[int(a)] = ("reject", int(b))
        for a in re.findall(r'<<"ACCEPT", (\d+)>>', out):
            ver[int(a)] = ("accept", None)
        if len(ver) != len(part):
            common.machinery_failure(f"StreamTrace gave {len(ver)} verdicts for {len(part)} runs:\n{out[-1500:]}")
        return ver, summ["distinct"]

    with concurrent.futures.ThreadPoolExecutor(max_workers=shards) as pool:
        res = list(pool.map(one, range(shards)))
    verdicts = [None] * len(runs)
    for k, (ver, _) in enumerate(res):
        for j, v in ver.items():
            verdicts[k + shards * (j - 1)] = v
    return verdicts, sum(s for _, s in res)


def _norm(e: dict) -> dict:
    base = {"op": "", "fault": "none", "res": "", "bytes": [], "id": 0, "s": [], "peer": [], "texts": [], "order": [], "results": []}
    base.update(e)
    if isinstance(base["fault"], bool) and base["op"] != "connect":
        base["fault"] = "none"
    return base


def collect(tier: str, rnd: random.Random, workdir: str, rep) -> list:
    covers, summ = model_covers(workdir, "MC_stream.cfg", "Streams3" if tier == "quick" else "Streams4")
    rep.add_tlc("MC_stream (streams x chunkings x reads x EOF)", summ, {"histories_emitted": len(covers)})
    covers2, summ2 = model_covers(workdir, "MC_stream_life.cfg", None)
    rep.add_tlc("MC_stream_life (connect / write / disconnect / faults)", summ2, {"histories_emitted": len(covers2)})
    jobs = []
    for k, c in enumerate(covers + covers2):
        jobs.append(("tcp" if k % 2 else "serial", 2 ** 16, concretise(c, k)))
    jobs += random_jobs(rnd, 1500 if tier == "quick" else 15000)
    jobs += concurrent_write_jobs(tier, workdir, rep)
    ctx = multiprocessing.get_context("fork")
    with ctx.Pool(16, initializer=common.limit_worker) as pool:
        return pool.map(run_commands, jobs, chunksize=64)


def check(prop: str) -> int:
    common.enter_scratch()
    tier = common.tier()
    rep = common.Report("C17", tier)
    rnd = random.Random(common.seed() * 17 + 17)
    workdir = tlc.scratch()
    try:
        tlc.stage(workdir)
        runs = collect(tier, rnd, workdir, rep)
        verdicts, states = judge(runs, workdir, 12)
        rep.cov["states"] += states
        rep.cov["transitions"] += states
        rep.add_traces(len(runs))
        rep.cov["evaluations"] = len(runs)
        rep.cov["distinct_nontrivial"] = len({json.dumps(r["commands"]) for r in runs if len(r["commands"]) > 2})
        rep.cov["rule"] = "histories = TLC transition covers of Stream.tla (all byte streams up to length 3/4 over 7 symbols x chunkings x read timing x EOF; life-cycle with faults) + random streams with small reader limits; distinct by command list"
        rep.sample({"transport": runs[len(runs) // 3]["kind"], "commands": runs[len(runs) // 3]["commands"],
                    "events": runs[len(runs) // 3]["events"][:6]})
        for r, v in zip(runs, verdicts):
            if v[0] == "reject":
                e = r["events"][v[1] - 1]
                rep.violation({"op": e["op"], "res": e.get("res", "")},
                              {"kind": "stream-run", "transport": r["kind"], "limit": r["limit"], "commands": r["commands"], "events": r["events"], "rejected_at": v[1]},
                              f"{r['kind']} transport: event {v[1]} {json.dumps(e)[:300]} is not allowed by the reference after commands {json.dumps(r['commands'])[:300]}")
        rep.assumptions += ["the OS socket / serial port is replaced by a real asyncio.StreamReader fed by hand and a fake writer directly beneath the library's code",
                            "after an over-long line or an injected I/O error only the error family is checked"]
        return rep.finish()
    finally:
        shutil.rmtree(workdir, ignore_errors=True)


def replay(doc: dict) -> int:
    common.enter_scratch()
    run = run_commands((doc["transport"], doc["limit"], doc["commands"]))
    work = tlc.scratch()
    try:
        tlc.stage(work)
        verdicts, _ = judge([run], work, 1)
    finally:
        shutil.rmtree(work, ignore_errors=True)
    print("events:", json.dumps(run["events"])[:1500])
    if verdicts[0][0] == "reject":
        print(f"VIOLATION property={doc.get('property', 'C17')} replay=(this file)")
        return 1
    print("accepted by the reference")
    return 0
