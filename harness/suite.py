"""Traces recorded from the repository's own test suite (code -> spec).

The tests under tests/test_gateway.py and tests/model/protocol drive a Gateway over a MockTransport.  With
harness/suiteplugin.py loaded, every listen step and send call they make is recorded with the public state
before and after, the writes and the outcome, and the resulting traces are validated by TLC against the
reference semantics like any other recorded execution.  The assertions of those tests compare a handful of
fields; the reference compares the whole projection, every write and the outcome at every step - a change the
tests exercise but do not notice is rejected here.

Nothing is written into the repository: pytest runs from a scratch directory with bytecode writing, the cache
provider and the coverage options of pyproject.toml switched off.
"""
from __future__ import annotations

import json
import os
import shutil
import subprocess
import sys
import tempfile

from . import common

TARGETS = ["tests/test_gateway.py", "tests/model/protocol"]


def record(only: str | None = None) -> dict:
    """Run the gateway tests of the tree under verification with the recorder; returns the plugin's document."""
    root = common.REPO_ROOT
    work = tempfile.mkdtemp(prefix="verif-suite-")
    try:
        out = os.path.join(work, "traces.json")
        env = dict(os.environ)
        env.update({"PYTHONDONTWRITEBYTECODE": "1", "PYTHONHASHSEED": "0", "VERIF_SUITE_OUT": out,
                    "PYTHONPATH": os.pathsep.join([common.VERIF, common.REPO_SRC])})
        targets = [only] if only else [os.path.join(root, t) for t in TARGETS]
        cmd = [sys.executable, "-m", "pytest", *targets, "-c", os.path.join(root, "pyproject.toml"), "--rootdir", root,
               "-o", "addopts=", "-p", "no:cacheprovider", "-p", "harness.suiteplugin", "-q", "--timeout=600"]
        proc = subprocess.run(cmd, cwd=work, env=env, capture_output=True, text=True, timeout=900, check=False)
        if not os.path.exists(out):
            raise RuntimeError("the recorder produced no trace file:\n" + (proc.stdout + proc.stderr)[-2000:])
        with open(out) as fil:
            doc = json.load(fil)
        doc["pytest_tail"] = proc.stdout.strip().splitlines()[-1:] if proc.stdout.strip() else []
        return doc
    finally:
        shutil.rmtree(work, ignore_errors=True)


def as_traces(doc: dict) -> list[dict]:
    """In the shape corecheck uses for executed histories."""
    res = []
    per_test: dict[str, int] = {}
    for t in doc["traces"]:
        k = per_test.get(t["test"], 0)
        per_test[t["test"]] = k + 1
        res.append({"init": t["init"], "events": t["events"], "direct": t.get("direct"),
                    "input": {"suite_test": t["test"], "gateway_index": k}})
    return res
