"""pytest plugin: record what the repository's own tests make the Gateway do, as traces for MySensorsTrace.

Loaded with `-p harness.suiteplugin` (harness/suite.py); nothing in /repo is changed: Gateway.listen and
Gateway.send are wrapped at run time, and the transport object of every Gateway the tests build gets recording
read / write wrappers.  One trace per Gateway object per test, in the format of harness/gwdriver.Run:
every __anext__ of listen() that read one line is an event (`recv` / `recvbad`), every send() is an event
(`send` / `sendjunk`), each with the public projection before and after, the writes in between and the outcome.

What decides whether a trace is judged depends only on what the *test* supplies (its transport object, the
lines it feeds, the objects it sends) - never on what the library did with them:
  - the transport's read / write are mocks (the test inspects them itself)      -> gateway not recorded
  - a fed line / sent message the codec property leaves undetermined ("gray")    -> trace skipped from there
  - the transport's read raised (IndexError of an exhausted MockTransport, ...)  -> no event
"""
from __future__ import annotations

import calendar
import inspect
import json
import os
import re
import sys
import time as real_time
from unittest import mock

import pytest

from aiomysensors.gateway import Gateway
from aiomysensors.model.message import Message

from harness import gwdriver as gd

OUT = os.environ.get("VERIF_SUITE_OUT", "suite_traces.json")
_orig_listen = Gateway.listen
_orig_send = Gateway.send
_current = {"test": None}
_recs: list = []

_CANON = re.compile(r"\A-?(0|[1-9][0-9]*)\Z")
_TERMINATORS = {10, 11, 12, 13, 28, 29, 30, 133, 8232, 8233}


def _gray(f: str) -> bool:
    if _CANON.match(f):
        return len(f) > 4000
    has = any(ch.isdigit() or ord(ch) > 127 for ch in f)
    only = all(ch in "0123456789-+_" or ch.isspace() or ord(ch) > 127 for ch in f)
    return has and only


def _fields_ok(n, c, cmd, ack, t) -> bool:
    if not (0 <= n <= 255 and 0 <= c <= 255 and 0 <= cmd <= 4 and ack in (0, 1)):
        return False
    if cmd in (3, 4) and not (c == 255 or (cmd == 3 and t in (3, 4))):
        return False
    if c == 255 and cmd not in (0, 3, 4):
        return False
    return True


def classify_line(line) -> tuple[str, dict]:
    """('recv', fields) | ('recvbad', {}) | ('gray', {}) for a line handed to the gateway (C02's accept set)."""
    if not isinstance(line, str):
        return "gray", {}
    s = line.rstrip()
    f = s.split(";", 5)
    if len(f) < 6:
        return "recvbad", {}
    if any(_gray(x) for x in f[:5]):
        return "gray", {}
    if not all(_CANON.match(x) for x in f[:5]):
        return "recvbad", {}
    if any(len(x) > 9 for x in f[:5]):
        # far outside every range except the type, whose range the codec does not limit
        return ("gray", {}) if all(len(x) <= 9 for x in f[:4]) else ("recvbad", {})
    n, c, cmd, ack, t = (int(x) for x in f[:5])
    if not _fields_ok(n, c, cmd, ack, t):
        return "recvbad", {}
    return "recv", {"n": n, "c": c, "cmd": cmd, "ack": ack, "t": t, "p": f[5]}


def classify_message(msg) -> tuple[str, dict]:
    """('send', fields) | ('sendjunk', {}) | ('gray', {}) for an object handed to Gateway.send."""
    if not isinstance(msg, Message):
        return "sendjunk", {}
    vals = [msg.node_id, msg.child_id, msg.command, msg.ack, msg.message_type]
    if not all(isinstance(v, int) and not isinstance(v, bool) for v in vals) or not isinstance(msg.payload, str):
        return "gray", {}
    n, c, cmd, ack, t = vals
    if abs(t) >= gd.BIG:
        return "gray", {}
    if not _fields_ok(n, c, cmd, ack, t):
        return "sendjunk", {}
    p = msg.payload
    if any(ord(ch) in _TERMINATORS for ch in p) or (p and p[-1].isspace()):
        return "gray", {}
    return "send", {"n": n, "c": c, "cmd": cmd, "ack": ack, "t": t, "p": p}


class Rec:
    def __init__(self, gw: Gateway) -> None:
        self.gw = gw
        self.test = _current["test"]
        self.events: list[dict] = []
        self.skip: str | None = None
        self.reads: list = []
        self.writes: list[dict] = []
        self.depth = 0
        self.direct: dict | None = None
        try:
            self.metric = bool(gw.config.metric)
        except Exception:  # noqa: BLE001
            self.metric = True
        self._wrap_transport()

    def _wrap_transport(self) -> None:
        tr = self.gw.transport
        try:
            rd, wr = tr.read, tr.write
        except Exception:  # noqa: BLE001
            self.skip = "transport without read/write"
            return
        if isinstance(tr, mock.Mock) or isinstance(rd, mock.Mock) or isinstance(wr, mock.Mock):
            self.skip = "the test's transport is a mock it inspects itself"
            return
        rec = self

        async def read():
            try:
                line = await rd()
            except BaseException as err:  # noqa: BLE001
                rec.reads.append(("err", err))
                raise
            rec.reads.append(("line", line))
            return line

        async def write(decoded_message):
            w = gd.parse_write(decoded_message)
            try:
                w["ids"] = sorted(i for i in rec.gw.nodes if isinstance(i, int))
            except Exception:  # noqa: BLE001
                w["ids"] = []
            try:
                await wr(decoded_message)
            except BaseException:
                w["ok"] = False
                rec.writes.append(w)
                raise
            w["ok"] = True
            rec.writes.append(w)

        try:
            tr.read = read
            tr.write = write
        except Exception:  # noqa: BLE001
            self.skip = "transport attributes cannot be wrapped"

    # ---------------------------------------------------------------------------------
    def begin(self):
        self.reads, self.writes = [], []
        return {"pre": gd.proj(self.gw), "t0": _clocks()}

    def finish(self, ctx: dict, kind: str, fields: dict, buf: bool, out: dict) -> None:
        t1 = _clocks()
        rec = {"k": kind, "n": fields.get("n", 0), "c": fields.get("c", 0), "cmd": fields.get("cmd", 0),
               "ack": fields.get("ack", 0), "t": fields.get("t", 0), "p": fields.get("p", ""),
               "pc": [ord(ch) for ch in fields.get("p", "")], "buf": buf, "fault": "",
               "pre": ctx["pre"], "out": out,
               "wr": [_time_token(w, ctx["t0"], t1) for w in self.writes],
               "post": gd.proj(self.gw)}
        rec["hint"] = gd.Run._hint(rec)
        self.events.append(rec)


def _clocks() -> list[int]:
    """Seconds 'local time as UTC' on the real clock and, when a test replaced it, on the module's clock."""
    out = [calendar.timegm(real_time.localtime())]
    mod = sys.modules.get("aiomysensors.model.protocol.protocol_14")
    clock = getattr(mod, "time", None)
    if clock is not None and clock is not real_time:
        try:
            out.append(calendar.timegm(clock.localtime()))
        except Exception:  # noqa: BLE001
            pass
    return out


def _time_token(w: dict, t0: list[int], t1: list[int]) -> dict:
    if w["cmd"] == 3 and w["t"] == 1 and re.fullmatch(r"\d{1,12}", w["p"] or ""):
        val = int(w["p"])
        for lo, hi in zip(t0, t1):
            if lo - 1 <= val <= hi + 1:
                return dict(w, p="<TIME>")
        if len(t0) != len(t1) and any(abs(val - x) <= 1 for x in t0 + t1):
            return dict(w, p="<TIME>")
    return w


_by_id: dict[int, Rec] = {}


def _rec_for(gw: Gateway) -> Rec:
    rec = _by_id.get(id(gw))
    if rec is None or rec.gw is not gw or rec.test != _current["test"]:
        rec = Rec(gw)          # (the record keeps the gateway alive, so its id is not reused within the session)
        _by_id[id(gw)] = rec
        _recs.append(rec)
    return rec


class RecAgen:
    """Async generator proxy around Gateway.listen(): one event per __anext__ that read a line."""

    def __init__(self, rec: Rec, agen) -> None:
        self._rec = rec
        self._agen = agen

    def __aiter__(self):
        return self

    async def __anext__(self):
        rec = self._rec
        if rec.skip or rec.depth:
            return await self._agen.__anext__()
        ctx = rec.begin()
        rec.depth += 1
        val = err = None
        try:
            val = await self._agen.__anext__()
            return val
        except BaseException as exc:  # noqa: BLE001
            err = exc
            raise
        finally:
            rec.depth -= 1
            self._record(ctx, val, err)

    def _record(self, ctx, val, err) -> None:
        rec = self._rec
        lines = [x for kind, x in rec.reads if kind == "line"]
        failed = [x for kind, x in rec.reads if kind == "err"]
        if failed and not lines:
            if not isinstance(failed[0], (IndexError, StopIteration, StopAsyncIteration)):
                rec.skip = f"the test's transport failed the read ({type(failed[0]).__name__}): not an event of the core reference"
            return
        if not lines:
            return      # cancelled / closed before a line arrived
        if len(lines) > 1 or failed:
            # more than one line consumed for one result: not a behaviour of the reference at all (C04: every
            # handled line is yielded exactly once); reported directly, the rest of the trace is not judged
            rec.direct = {"lines": [repr(x)[:120] for x in lines], "after_events": len(rec.events)}
            rec.skip = "listen() consumed several lines for one result"
            return
        kind, fields = classify_line(lines[0])
        if kind == "gray":
            rec.skip = f"line outside the determined part of the codec property: {lines[0]!r}"[:200]
            return
        if isinstance(err, (GeneratorExit,)):
            return
        out = gd.Run._outcome(val, err, yielded=True)
        rec.finish(ctx, kind, fields, False, out)
        if kind == "recvbad":
            rec.events[-1]["line"] = lines[0]

    async def asend(self, value):
        return await self._agen.asend(value)

    async def athrow(self, *args):
        return await self._agen.athrow(*args)

    async def aclose(self):
        return await self._agen.aclose()


def listen(self):
    return RecAgen(_rec_for(self), _orig_listen(self))


_SEND_SIG = inspect.signature(_orig_send)


async def send(self, *args, **kwargs):
    rec = _rec_for(self)
    if rec.skip or rec.depth:
        return await _orig_send(self, *args, **kwargs)
    try:
        bound = _SEND_SIG.bind(self, *args, **kwargs)
        bound.apply_defaults()
        msg = bound.arguments.get("message")
        buf = bool(bound.arguments.get("message_buffer", True))
    except TypeError:
        return await _orig_send(self, *args, **kwargs)
    kind, fields = classify_message(msg)
    if kind == "gray":
        rec.skip = f"sent object outside the determined part of the codec property: {msg!r}"[:200]
        return await _orig_send(self, *args, **kwargs)
    ctx = rec.begin()
    rec.depth += 1
    err = None
    try:
        return await _orig_send(self, *args, **kwargs)
    except BaseException as exc:  # noqa: BLE001
        err = exc
        raise
    finally:
        rec.depth -= 1
        if kind == "sendjunk":
            fields = {"p": type(msg).__name__}
        rec.finish(ctx, kind, fields, buf, gd.Run._outcome(None, err, yielded=False))


Gateway.listen = listen
Gateway.send = send


@pytest.hookimpl(tryfirst=True)
def pytest_runtest_setup(item):
    _current["test"] = item.nodeid


def pytest_sessionfinish(session, exitstatus):
    traces = []
    skipped = []
    for rec in _recs:
        if rec.events or rec.direct:
            traces.append({"test": rec.test, "init": {"metric": rec.metric}, "events": rec.events,
                           "truncated": rec.skip, "direct": rec.direct})
        elif rec.skip:
            skipped.append({"test": rec.test, "why": rec.skip})
    with open(OUT, "w") as fil:
        json.dump({"traces": traces, "skipped": skipped, "exitstatus": int(exitstatus)}, fil)
