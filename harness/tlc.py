"""Run TLC on the specifications in /verif/spec from a scratch directory and parse its output."""
from __future__ import annotations

import concurrent.futures
import json
import os
import re
import shutil
import subprocess
import tempfile

SPEC_DIR = os.path.join(os.path.dirname(os.path.dirname(os.path.abspath(__file__))), "spec")
JAR = "/opt/veriftools/tla/tla2tools.jar"
CM = "/opt/veriftools/tla/CommunityModules-deps.jar"


class TLCError(RuntimeError):
    """TLC itself failed (parse error, evaluation error): a machinery failure, never a verdict."""


def _classpath() -> str:
    cp = [JAR]
    d = os.path.dirname(JAR)
    for f in sorted(os.listdir(d)):
        if f.endswith(".jar") and os.path.join(d, f) != JAR:
            cp.append(os.path.join(d, f))
    return ":".join(cp)


def scratch() -> str:
    return tempfile.mkdtemp(prefix="verif-tlc-")


def stage(workdir: str, extra_modules: dict[str, str] | None = None) -> None:
    for root in (SPEC_DIR, os.path.join(SPEC_DIR, "mc")):
        for f in os.listdir(root):
            if f.endswith(".tla") or f.endswith(".cfg"):
                shutil.copy(os.path.join(root, f), os.path.join(workdir, f))
    for name, text in (extra_modules or {}).items():
        with open(os.path.join(workdir, name), "w") as fil:
            fil.write(text)


def run(workdir: str, module: str, cfg: str, *, workers: int = 1, env: dict | None = None,
        args: list[str] | None = None, timeout: int = 1500, heap: str = "4g") -> str:
    """Run TLC; returns stdout+stderr. Raises TLCError on a machinery failure."""
    meta = tempfile.mkdtemp(prefix="meta-", dir=workdir)
    cmd = ["java", f"-Xmx{heap}", "-XX:+UseParallelGC", f"-Djava.io.tmpdir={meta}", "-cp", _classpath(), "tlc2.TLC",
           "-workers", str(workers), "-metadir", meta, "-noGenerateSpecTE", "-config", cfg]
    cmd += args or []
    cmd.append(module)
    e = dict(os.environ)
    e.update(env or {})
    proc = subprocess.run(cmd, cwd=workdir, env=e, capture_output=True, text=True, timeout=timeout)
    out = proc.stdout + proc.stderr
    shutil.rmtree(meta, ignore_errors=True)
    return out


def summary(out: str) -> dict:
    """states generated / distinct, depth, and whether TLC reported an error."""
    res = {"generated": 0, "distinct": 0, "depth": 0, "error": None, "violated": []}
    m = re.search(r"(\d+) states generated, (\d+) distinct states found", out)
    if m:
        res["generated"], res["distinct"] = int(m.group(1)), int(m.group(2))
    m = re.search(r"depth of the complete state graph search is (\d+)", out)
    if m:
        res["depth"] = int(m.group(1))
    for m in re.finditer(r"Invariant (\w+) is violated|Action property (\w+) is violated|Temporal properties were violated", out):
        res["violated"].append(m.group(1) or m.group(2) or "temporal")
    if "Error:" in out and not res["violated"]:
        idx = out.index("Error:")
        res["error"] = out[idx: idx + 1500]
    if not re.search(r"Model checking completed|Finished in|states generated", out):
        res["error"] = res["error"] or out[-1500:]
    return res


_COVER = re.compile(r'<<"COVER", "(.*)">>')


def cover_lines(out: str) -> list[list[int]]:
    hists = []
    for line in out.splitlines():
        m = _COVER.search(line)
        if m:
            hists.append(json.loads(m.group(1).replace('\\"', '"')))
    return hists


def coverage_counts(out: str) -> dict[str, int]:
    """Per-action counts from -coverage output: '<Do line ..>: distinct:total'."""
    counts = {}
    for m in re.finditer(r"<(\w+) line \d+, col \d+ to line \d+, col \d+ of module (\w+)>: (\d+):(\d+)", out):
        counts[f"{m.group(2)}.{m.group(1)}"] = int(m.group(4))
    return counts


# ---------------------------------------------------------------------------------------
# trace validation

def _validate_shard(args) -> tuple[dict, str]:
    workdir, shard_no, traces, focus, module, maxnode = args
    path = os.path.join(workdir, f"traces-{shard_no}.json")
    with open(path, "w") as fil:
        json.dump({"traces": traces}, fil)
    cfg = os.path.join(workdir, f"trace-{shard_no}.cfg")
    with open(cfg, "w") as fil:
        fil.write("SPECIFICATION TraceSpec\nCONSTANTS\n  MaxNodeId = %d\n  Focus = {%s}\n"
                  "INVARIANT Accepted\nINVARIANT Stuck\nCHECK_DEADLOCK FALSE\n"
                  % (maxnode, ", ".join('"%s"' % f for f in sorted(focus))))
    out = run(workdir, module, os.path.basename(cfg), workers=1, env={"TRACE_FILE": path})
    os.unlink(path)
    verdict = {}
    for m in re.finditer(r'<<"ACCEPT", (\d+)>>', out):
        verdict.setdefault(int(m.group(1)), ("accept", None))
    for m in re.finditer(r'<<"REJECT", (\d+), (\d+)>>', out):
        t, l = int(m.group(1)), int(m.group(2))
        prev = verdict.get(t)
        # a trace is rejected only if NO branch accepts it; remember the furthest stuck position
        if prev is None or (prev[0] == "reject" and l > prev[1]):
            verdict[t] = ("reject", l)
    # a branch that accepted wins over stuck branches of the same trace
    for m in re.finditer(r'<<"ACCEPT", (\d+)>>', out):
        verdict[int(m.group(1))] = ("accept", None)
    return verdict, out


def validate(traces: list[dict], focus: set[str], *, module: str = "MySensorsTrace", maxnode: int = 254,
             shards: int = 12, workdir: str | None = None) -> dict:
    """Validate traces with TLC.  Returns {"verdicts": [(status, pos)...], "states": n, "outputs": [...]}.

    status is "accept", "reject" (TLC found no behaviour of the reference matching the trace
    under the focus; pos = 1-based index of the first event that cannot be matched) or raises
    TLCError when a trace got no verdict at all (machinery failure)."""
    own = workdir is None
    workdir = workdir or scratch()
    try:
        stage(workdir)
        n = len(traces)
        shards = max(1, min(shards, (n + 49) // 50))
        parts = [list(range(i, n, shards)) for i in range(shards)]
        jobs = [(workdir, k, [traces[i] for i in idx], focus, module, maxnode) for k, idx in enumerate(parts)]
        verdicts = [None] * n
        states = 0
        outputs = []
        with concurrent.futures.ThreadPoolExecutor(max_workers=shards) as pool:
            for (k, idx), (verdict, out) in zip(enumerate(parts), pool.map(_validate_shard, jobs)):
                s = summary(out)
                states += s["distinct"]
                if s["error"] or s["violated"]:
                    first = out.find("Error:")
                    raise TLCError(f"TLC failed on shard {k}:\n{out[first:first + 2500] if first >= 0 else out[-3000:]}")
                for local, i in enumerate(idx, start=1):
                    if local not in verdict:
                        raise TLCError(f"no verdict for trace {i} (shard {k}):\n{out[-2000:]}")
                    verdicts[i] = verdict[local]
                outputs.append(out)
        return {"verdicts": verdicts, "states": states}
    finally:
        if own:
            shutil.rmtree(workdir, ignore_errors=True)
