"""A deterministic event loop for life-cycle exploration: virtual time (never advances by itself)
and a gated thread pool (every run_in_executor job waits until the harness runs / delivers it).

A job has its own life, as on a real thread pool:
  queued  -> run(job): the function executes now (its side effect on the file system happens),
             the result is held                                   -> "ran"
  ran     -> deliver(job): the awaiting future gets the result    -> "delivered"
  queued and the awaiting future was cancelled -> the job is dropped (a queued job is cancellable)
  ran and the awaiting future was cancelled    -> the side effect has happened, the result is discarded
"""
from __future__ import annotations

import asyncio


class Job:
    def __init__(self, func, args, fut, owner: str, seq: int) -> None:
        self.func, self.args, self.fut, self.owner, self.seq = func, args, fut, owner, seq
        self.state = "queued"
        self.result = None
        self.error = None

    def describe(self) -> dict:
        f = self.func
        name = getattr(f, "__name__", None) or getattr(getattr(f, "func", None), "__name__", None) or type(f).__name__
        args = list(getattr(f, "args", ())) + list(self.args)
        kw = dict(getattr(f, "keywords", {}) or {})
        kind = name
        if name in ("open", "sync_open") or "open" in str(name):
            kind = "open:" + str(kw.get("mode", args[1] if len(args) > 1 else "r"))
        elif name in ("close", "__exit__"):
            kind = "close"          # aiofiles closes the file through the file object's __exit__
        return {"kind": kind, "owner": self.owner, "seq": self.seq}


class VLoop(asyncio.SelectorEventLoop):
    def __init__(self) -> None:
        super().__init__()
        self.vtime = 0.0
        self.jobs: list[Job] = []
        self._jobseq = 0

    def time(self) -> float:
        return self.vtime

    def run_in_executor(self, executor, func, *args):
        fut = self.create_future()
        task = asyncio.current_task(self)
        self._jobseq += 1
        self.jobs.append(Job(func, args, fut, task.get_name() if task else "?", self._jobseq))
        return fut

    # -- harness side ---------------------------------------------------------------------
    def settle(self, rounds: int = 8) -> None:
        for _ in range(rounds):
            self.run_until_complete(asyncio.sleep(0))

    def pending_jobs(self) -> list[Job]:
        for j in self.jobs:
            if j.state == "queued" and j.fut.cancelled():
                j.state = "dropped"      # a queued thread-pool job whose future was cancelled never runs
            elif j.state == "ran" and j.fut.cancelled():
                j.state = "delivered"    # its effect has happened, nobody waits for the result
        return [j for j in self.jobs if j.state in ("queued", "ran")]

    def run_job(self, job: Job) -> None:
        if job.state != "queued":
            return
        if job.fut.cancelled():
            job.state = "dropped"
            return
        try:
            job.result = job.func(*job.args)
        except BaseException as err:  # noqa: BLE001
            job.error = err
        job.state = "ran"

    def deliver_job(self, job: Job) -> None:
        if job.state != "ran":
            return
        job.state = "delivered"
        if not job.fut.cancelled() and not job.fut.done():
            if job.error is not None:
                job.fut.set_exception(job.error)
            else:
                job.fut.set_result(job.result)

    def next_timer(self) -> float | None:
        whens = [h.when() for h in self._scheduled if not h.cancelled()]
        return min(whens) if whens else None

    def advance_to(self, when: float) -> None:
        if when > self.vtime:
            self.vtime = when
