"""Stand-alone demonstrations of the defects repaired by the `fix:` commits in /repo.

Each probe drives the *real* code with the specific failing input / schedule and
returns None when the property holds and a string describing the failure otherwise.
Run:  /venv/bin/python /verif/notes/probes.py [name ...]
This file is documentation (the checks in /verif/check decide the properties); it is
what was used to show each defect on the real code before the corresponding fix.
"""
import asyncio
import json
import os
import sys
import tempfile

os.environ.setdefault("PYTHONDONTWRITEBYTECODE", "1")
sys.dont_write_bytecode = True
os.chdir(tempfile.mkdtemp(prefix="probe-"))

from aiomysensors import Gateway  # noqa: E402
from aiomysensors.exceptions import AIOMySensorsError, TransportError  # noqa: E402
from aiomysensors.gateway import Config  # noqa: E402
from aiomysensors.model.message import Message, MessageSchema  # noqa: E402
from aiomysensors.model.node import Node  # noqa: E402
from aiomysensors.model.protocol import get_protocol  # noqa: E402
from aiomysensors.transport import Transport  # noqa: E402


class FakeTransport(Transport):
    def __init__(self, lines=()):
        self.lines = list(lines)
        self.writes = []
        self.gate = None

    async def connect(self):
        pass

    async def disconnect(self):
        pass

    async def read(self):
        if not self.lines:
            await asyncio.sleep(3600)
        return self.lines.pop(0)

    async def write(self, decoded_message):
        if self.gate is not None:
            await self.gate(decoded_message)
        self.writes.append(decoded_message)


async def step(gw, line):
    gw.transport.lines.append(line)
    gen = gw.listen()
    try:
        return await gen.__anext__()
    finally:
        await gen.aclose()


def outcome(coro):
    try:
        return ("ok", asyncio.run(coro))
    except AIOMySensorsError as err:
        return ("lib", err)
    except BaseException as err:  # noqa: BLE001
        return ("other", err)


def c01_payload_with_delimiter():
    schema = MessageSchema()
    schema.set_protocol(get_protocol("2.2"))
    msg = schema.load("1;1;1;0;49;55.7;12.5;30\n")
    if msg.payload != "55.7;12.5;30":
        return f"payload decoded as {msg.payload!r}"
    return None


def c02_short_line():
    gw = Gateway(FakeTransport())
    kind, val = outcome(step(gw, "1;2;3\n"))
    if kind != "lib":
        return f"short line escapes as {type(val).__name__}"
    return None


def c04_missing_child_id():
    gw = Gateway(FakeTransport())
    gw.nodes[1] = Node(1, 17, "2.0")
    kind, val = outcome(step(gw, "1;7;1;0;0;20\n"))
    if getattr(val, "child_id", None) != 7:
        return f"MissingChildError.child_id = {getattr(val, 'child_id', None)!r}, want 7"
    return None


def c05_three_component_version():
    bad = []
    for ver, want in (("2.2.0", "2.2"), ("2.0.0", "2.0"), ("1.5.0", "1.5"), ("2.3.2", "2.2"), ("2.1.1", "2.1")):
        got = get_protocol(ver).VERSION
        if got != want:
            bad.append(f"{ver}->{got} (want {want})")
    return ", ".join(bad) or None


def c05_rejected_version_disagrees():
    gw = Gateway(FakeTransport())
    kind, val = outcome(step(gw, "0;255;3;0;2;garbage\n"))
    problems = []
    if kind == "other":
        problems.append(f"escapes as {type(val).__name__}")
    if gw.protocol_version is not None and kind != "ok":
        problems.append(f"rejected but protocol_version={gw.protocol_version!r}, rules={gw.protocol.VERSION}")
    return "; ".join(problems) or None


def c03_battery_payload():
    bad = []
    for payload in ("abc", "nan", "inf", ""):
        gw = Gateway(FakeTransport())
        gw.protocol_version = "2.0"
        gw.nodes[1] = Node(1, 17, "2.0")
        kind, val = outcome(step(gw, f"1;255;3;0;0;{payload}\n"))
        if kind == "other":
            bad.append(f"{payload!r}->{type(val).__name__}")
    return ", ".join(bad) or None


def c03_heartbeat_payload():
    bad = []
    for ver in ("2.0", "2.2"):
        gw = Gateway(FakeTransport())
        gw.protocol_version = ver
        gw.nodes[1] = Node(1, 17, ver)
        kind, val = outcome(step(gw, "1;255;3;0;22;x\n"))
        if kind == "other":
            bad.append(f"{ver}: {type(val).__name__}")
    return ", ".join(bad) or None


def c13_battery_out_of_range():
    path = os.path.join(os.getcwd(), "p.json")
    gw = Gateway(FakeTransport(), Config(persistence_file=path))
    gw.protocol_version = "2.0"
    gw.nodes[1] = Node(1, 17, "2.0")
    kind, val = outcome(step(gw, "1;255;3;0;0;150\n"))
    if kind != "ok":
        return None  # rejected on the wire: nothing unloadable is stored
    asyncio.run(gw.persistence.save())
    gw2 = Gateway(FakeTransport(), Config(persistence_file=path))
    kind, val = outcome(gw2.persistence.load())
    if kind != "ok":
        return f"file written by save refused by load: {type(val).__name__}: {val}"
    if gw2.nodes[1].battery_level != gw.nodes[1].battery_level:
        return "battery level not reproduced"
    return None


def c12_send_other_commands():
    bad = []
    for cmd, child, typ in ((0, 255, 17), (2, 1, 0), (3, 255, 13), (4, 255, 0)):
        gw = Gateway(FakeTransport())
        gw.nodes[1] = Node(1, 17, "1.4")
        kind, val = outcome(gw.send(Message(1, child, cmd, 0, typ, "")))
        if kind == "other":
            bad.append(f"cmd {cmd}: {type(val).__name__}")
        elif kind == "ok" and not gw.transport.writes:
            bad.append(f"cmd {cmd}: returned, nothing written, destination not sleeping")
    return ", ".join(bad) or None


def c09_lost_update():
    async def run():
        tr = FakeTransport()
        gw = Gateway(tr)
        gw.protocol_version = "2.0"
        node = gw.nodes[1] = Node(1, 17, "2.0")
        node.add_child(1, 3)
        node.sleeping = True
        await gw.send(Message(1, 1, 1, 0, 2, "old"))
        release = asyncio.Event()
        entered = asyncio.Event()

        async def gate(_line):
            entered.set()
            await release.wait()

        tr.gate = gate
        listener = asyncio.ensure_future(step(gw, "1;255;3;0;22;1\n"))
        await entered.wait()  # the flush is suspended inside the write of "old"
        await gw.send(Message(1, 1, 1, 0, 2, "new"))  # parked: node is sleeping
        release.set()
        await listener
        tr.gate = None
        await step(gw, "1;255;3;0;22;2\n")  # the node wakes once more
        return tr.writes

    writes = asyncio.run(run())
    if not writes or writes[-1] != "1;1;1;0;2;new\n":
        return f"last value sent was 'new', writes were {writes}"
    return None


def c14_load_wrong_shapes():
    bad = []
    for text in ("[]", "1", "null", '{"1": 1}', '{"1": null}', '{"1": {}}',
                 '{"1": {"node_id": 1, "node_type": "x", "protocol_version": "2.0"}}',
                 '{"1": {"node_id": 1, "node_type": 17, "protocol_version": "2.0", "bogus": 1}}'):
        path = os.path.join(os.getcwd(), "w.json")
        with open(path, "w") as fil:
            fil.write(text)
        gw = Gateway(FakeTransport(), Config(persistence_file=path))
        kind, val = outcome(gw.persistence.load())
        if kind == "other":
            bad.append(f"{text} -> {type(val).__name__}")
    return "; ".join(bad) or None


def c16_exit_before_saver_runs():
    async def run():
        path = os.path.join(os.getcwd(), "l.json")
        gw = Gateway(FakeTransport(), Config(persistence_file=path))
        async with gw:
            gw.nodes[5] = Node(5, 17, "2.0")
        with open(path) as fil:
            return json.load(fil)

    try:
        data = asyncio.run(run())
    except BaseException as err:  # noqa: BLE001
        return f"immediate exit raises {type(err).__name__}"
    if "5" not in data:
        return "final registry not written"
    return None


def c16_connect_failure_leaks_saver():
    class Failing(FakeTransport):
        async def connect(self):
            raise TransportError("no route")

    async def run():
        path = os.path.join(os.getcwd(), "f.json")
        gw = Gateway(Failing(), Config(persistence_file=path))
        try:
            async with gw:
                pass
        except TransportError:
            pass
        await asyncio.sleep(0.05)
        return [t for t in asyncio.all_tasks() if t is not asyncio.current_task()]

    left = asyncio.run(run())
    if left:
        return f"{len(left)} task(s) left after failed connect"
    return None


def c16_disconnect_failure_skips_final_save():
    class Failing(FakeTransport):
        async def disconnect(self):
            raise TransportError("gone")

    async def run():
        path = os.path.join(os.getcwd(), "d.json")
        gw = Gateway(Failing(), Config(persistence_file=path))
        try:
            async with gw:
                await asyncio.sleep(0.05)
                gw.nodes[5] = Node(5, 17, "2.0")
        except TransportError:
            pass
        await asyncio.sleep(0.05)
        left = [t for t in asyncio.all_tasks() if t is not asyncio.current_task()]
        with open(path) as fil:
            return left, json.load(fil)

    left, data = asyncio.run(run())
    problems = []
    if left:
        problems.append(f"{len(left)} task(s) left")
    if "5" not in data:
        problems.append("final registry not written")
    return "; ".join(problems) or None


def c17_undecodable_line():
    from aiomysensors.transport.tcp import TCPTransport

    async def run():
        tr = TCPTransport("h")
        tr.reader = asyncio.StreamReader()
        tr.reader.feed_data(b"\xff\xfe;1\n")
        return await tr.read()

    kind, val = outcome(run())
    if kind == "other":
        return f"undecodable line escapes as {type(val).__name__}"
    return None


class _Topic:
    def __init__(self, value):
        self.value = value


class _Msg:
    def __init__(self, topic, payload):
        self.topic = _Topic(topic)
        self.payload = payload


class FakeAioMqtt:
    """Stand-in for aiomqtt.Client underneath MQTTClient."""

    instances = []

    def __init__(self, *args, **kwargs):
        self.queue = asyncio.Queue()
        self.published = []
        self.subscribed = []
        FakeAioMqtt.instances.append(self)

    async def __aenter__(self):
        return self

    async def __aexit__(self, *exc):
        return None

    async def publish(self, topic, **params):
        self.published.append((topic, params))

    async def subscribe(self, topic, **params):
        self.subscribed.append((topic, params))

    @property
    def messages(self):
        return self

    def __aiter__(self):
        return self

    async def __anext__(self):
        item = await self.queue.get()
        if isinstance(item, BaseException):
            raise item
        return item


def _mqtt_client():
    from aiomysensors.transport import mqtt

    mqtt.AsyncioClient = FakeAioMqtt
    return mqtt.MQTTClient("h")


def c18_payload_with_delimiter():
    async def run():
        cl = _mqtt_client()
        await cl.connect()
        await cl.write("1;1;1;0;49;55.7;12.5;30\n")
        return FakeAioMqtt.instances[-1].published

    kind, val = outcome(run())
    if kind != "ok":
        return f"write raises {type(val).__name__}: {val}"
    topic, params = val[-1]
    if topic != "mygateway1-in/1/1/1/0/49" or params.get("payload") != "55.7;12.5;30":
        return f"published {topic} {params}"
    return None


def c18_disconnect_raises():
    async def run():
        cl = _mqtt_client()
        await cl.connect()
        await asyncio.sleep(0)
        await cl.disconnect()

    kind, val = outcome(run())
    if kind != "ok":
        return f"connect then disconnect raises {type(val).__name__}"
    return None


def c18_silently_deaf():
    async def run():
        cl = _mqtt_client()
        await cl.connect()
        FakeAioMqtt.instances[-1].queue.put_nowait(_Msg("mygateway1-out/1/1/1/0/2", b"\xff\xfe"))
        try:
            return await asyncio.wait_for(cl.read(), 0.2)
        except asyncio.TimeoutError:
            return "blocked"

    kind, val = outcome(run())
    if kind == "ok" and val == "blocked":
        return "undecodable payload: receive task died, read blocks forever"
    if kind == "other":
        return f"read raises {type(val).__name__}"
    return None


PROBES = {name: fn for name, fn in list(globals().items()) if name[:1] == "c" and name[1:3].isdigit() and callable(fn)}

if __name__ == "__main__":
    names = sys.argv[1:] or sorted(PROBES)
    failed = 0
    for name in names:
        try:
            res = PROBES[name]()
        except BaseException as err:  # noqa: BLE001
            res = f"probe crashed: {type(err).__name__}: {err}"
        print(f"{'FAIL' if res else 'ok  '} {name}{': ' + res if res else ''}")
        failed += bool(res)
    sys.exit(1 if failed else 0)
