------------------------------- MODULE Codec -------------------------------
(***************************************************************************)
(* The wire line 'node;child;command;ack;type;payload\n' as a sequence of  *)
(* code points: the decoder's accept set (C02) and the round trip law      *)
(* (C01), transcribed from the properties and the MySensors serial API,    *)
(* not from the Python code.                                               *)
(*                                                                         *)
(* Numbers that may exceed TLC's 32-bit integers (the message type) are    *)
(* kept as canonical digit sequences.                                      *)
(*                                                                         *)
(* Two uses:                                                               *)
(*  - generator + oracle (spec -> code): Init picks a case from a bounded   *)
(*    set, TLC checks the laws on it and prints the case with the expected *)
(*    result; the harness runs the real codec on every printed case;       *)
(*  - validator (code -> spec): CodecTrace.tla judges cases recorded from  *)
(*    the real codec on random inputs.                                     *)
(***************************************************************************)
EXTENDS Integers, Sequences, FiniteSets, TLC

SEMI == 59   NL == 10   MINUS == 45   PLUS == 43   UNDERSCORE == 95

(* the characters Python's str.rstrip() removes *)
IsSpace(c) == \/ c \in 9..13 \/ c \in 28..32 \/ c = 133 \/ c = 160 \/ c = 5760
              \/ c \in 8192..8202 \/ c \in {8232, 8233, 8239, 8287, 12288}
(* line terminators (Unicode: LF, VT, FF, CR, NEL, LS, PS): C01 is about payloads free of them.  The   *)
(* information separators FS / GS / RS (28..30), which Python's str.splitlines also splits at, are not *)
(* line terminators: a payload containing them must survive the round trip.                            *)
IsTerminator(c) == c \in {10, 11, 12, 13, 133, 8232, 8233}

RECURSIVE RStrip(_)
RStrip(q) == IF Len(q) > 0 /\ IsSpace(q[Len(q)]) THEN RStrip(SubSeq(q, 1, Len(q) - 1)) ELSE q

IsDigit(c) == c \in 48..57
AllDigits(q) == Len(q) > 0 /\ \A i \in 1..Len(q) : IsDigit(q[i])

(* split at the first k separators *)
RECURSIVE SplitN(_, _, _)
SplitN(q, sep, k) ==
    IF k = 0 \/ \A i \in 1..Len(q) : q[i] # sep THEN <<q>>
    ELSE LET i == CHOOSE i \in 1..Len(q) : q[i] = sep /\ \A j \in 1..(i-1) : q[j] # sep
         IN  <<SubSeq(q, 1, i-1)>> \o SplitN(SubSeq(q, i+1, Len(q)), sep, k - 1)

RECURSIVE Join(_, _)
Join(parts, sep) == IF Len(parts) = 0 THEN <<>>
                    ELSE IF Len(parts) = 1 THEN parts[1]
                    ELSE parts[1] \o <<sep>> \o Join(Tail(parts), sep)

(* plain decimal: 0 | [1-9][0-9]* | -[1-9][0-9]* *)
Canonical(q) ==
    LET body == IF Len(q) > 0 /\ q[1] = MINUS THEN Tail(q) ELSE q IN
    /\ AllDigits(body)
    /\ (Len(body) > 1 => body[1] # 48)
    /\ (q # body => body # <<48>>)
(* spellings Python's int() also reads (padding, sign, underscores, leading zeros, non-ASCII *)
(* digits): C02 says "integers", so these may be accepted with their value or rejected      *)
(* an integer too long for the implementation language to parse (CPython refuses more than 4300 digits) *)
TooLong(q) == Len(q) > 4000
Gray(q) ==
  \/ (Canonical(q) /\ TooLong(q))
  \/
    /\ ~Canonical(q)
    /\ \E i \in 1..Len(q) : IsDigit(q[i]) \/ q[i] > 127
    /\ \A i \in 1..Len(q) : IsDigit(q[i]) \/ q[i] \in {MINUS, PLUS, UNDERSCORE} \/ IsSpace(q[i]) \/ q[i] > 127

RECURSIVE DecVal(_)
DecVal(q) == IF Len(q) = 0 THEN 0 ELSE DecVal(SubSeq(q, 1, Len(q)-1)) * 10 + (q[Len(q)] - 48)
(* value of a canonical non-negative field when it is small, else -1 (out of every range) *)
Small(q) == IF AllDigits(q) /\ Len(q) <= 3 THEN DecVal(q) ELSE -1

InternalCmd == 3   StreamCmd == 4   SysChild == 255
IdTypes == {<<51>>, <<52>>}     \* "3" (I_ID_REQUEST), "4" (I_ID_RESPONSE)

(* the decoder: "invalid", "gray" (not determined) or the message *)
Decode(line) ==
    LET s == RStrip(line)
        f == SplitN(s, SEMI, 5)
    IN  IF Len(f) < 6 THEN [k |-> "invalid"]
        ELSE IF \E i \in 1..5 : Gray(f[i]) THEN [k |-> "gray"]
        ELSE IF \E i \in 1..5 : ~Canonical(f[i]) THEN [k |-> "invalid"]
        ELSE LET n == Small(f[1])  c == Small(f[2])  cmd == Small(f[3])  ack == Small(f[4]) IN
             IF /\ n \in 0..255 /\ c \in 0..255 /\ cmd \in 0..4 /\ ack \in {0, 1}
                /\ (cmd \in {InternalCmd, StreamCmd} => (c = SysChild \/ (cmd = InternalCmd /\ f[5] \in IdTypes)))
                /\ (c = SysChild => cmd \in {0, InternalCmd, StreamCmd})
             THEN [k |-> "msg", n |-> n, c |-> c, cmd |-> cmd, ack |-> ack, t |-> f[5], p |-> f[6]]
             ELSE [k |-> "invalid"]

RECURSIVE Digits(_)
Digits(i) == IF i < 10 THEN <<48 + i>> ELSE Digits(i \div 10) \o <<48 + (i % 10)>>

Encode(m) == Join(<<Digits(m.n), Digits(m.c), Digits(m.cmd), Digits(m.ack), m.t, m.p>>, SEMI) \o <<NL>>

WellFormedMsg(m) ==
    /\ m.n \in 0..255 /\ m.c \in 0..255 /\ m.cmd \in 0..4 /\ m.ack \in {0, 1} /\ Canonical(m.t)
    /\ (m.cmd \in {InternalCmd, StreamCmd} => (m.c = SysChild \/ (m.cmd = InternalCmd /\ m.t \in IdTypes)))
    /\ (m.c = SysChild => m.cmd \in {0, InternalCmd, StreamCmd})
    /\ \A i \in 1..Len(m.p) : ~IsTerminator(m.p[i])
    /\ (Len(m.p) > 0 => ~IsSpace(m.p[Len(m.p)]))

AsMsg(m) == [k |-> "msg", n |-> m.n, c |-> m.c, cmd |-> m.cmd, ack |-> m.ack, t |-> m.t, p |-> m.p]

(* the laws of C01 *)
RoundTrip(m)   == WellFormedMsg(m) => Decode(Encode(m)) = AsMsg(m)
OneLine(m)     == WellFormedMsg(m) =>
                     LET e == Encode(m) IN e[Len(e)] = NL /\ \A i \in 1..(Len(e)-1) : e[i] # NL
ReEncode(line) == LET d == Decode(line) IN
                  (d.k = "msg" /\ \A i \in 1..Len(d.p) : ~IsTerminator(d.p[i])) => Encode(d) = RStrip(line) \o <<NL>>

=============================================================================
