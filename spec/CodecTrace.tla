----------------------------- MODULE CodecTrace -----------------------------
(* Cases recorded from the real codec (MessageSchema.load / dump,           *)
(* Gateway.listen / send) on random inputs, judged against Codec.tla.       *)
EXTENDS Codec, Json, IOUtils

Cases == JsonDeserialize(IOEnv.TRACE_FILE).cases
VARIABLE i

DecodeOK(cs) ==
    LET d == Decode(cs.line) IN
    \* a spelling beyond plain decimal may be refused, or read as an integer - but then the value it was
    \* read as must respect the ranges and the cross-field rules like any other
    CASE d.k = "gray"    -> \/ cs.res.k \in {"invalid", "accepted"}
                            \/ cs.res.k = "msg" /\ WellFormedMsg([n |-> cs.res.n, c |-> cs.res.c, cmd |-> cs.res.cmd,
                                                                  ack |-> cs.res.ack, t |-> cs.res.t, p |-> <<>>])
      [] d.k = "invalid" -> cs.res.k = "invalid"
      [] OTHER           -> \/ cs.res.k = "accepted"      \* decoded, then refused by a handler (listen path)
                            \/ /\ cs.res.k = "msg"
                               /\ cs.res.n = d.n /\ cs.res.c = d.c /\ cs.res.cmd = d.cmd /\ cs.res.ack = d.ack
                               /\ cs.res.t = d.t /\ cs.res.p = d.p
EncodeOK(cs) ==
    WellFormedMsg(cs.msg) => (cs.res.k = "line" /\ cs.res.line = Encode(cs.msg))

CaseOK(cs) == IF cs.kind = "decode" THEN DecodeOK(cs) ELSE EncodeOK(cs)

Init == i = 0
Next == /\ i < Len(Cases)
        /\ i' = i + 1
        /\ (CaseOK(Cases[i']) \/ PrintT(<<"REJECT", i'>>))
Spec == Init /\ [][Next]_i
Finished == (i = Len(Cases)) => PrintT(<<"DONE", i>>)
=============================================================================
