----------------------------- MODULE FlushRace -----------------------------
(***************************************************************************)
(* C09.  The listener task releasing the parked commands of a woken node   *)
(* races with application tasks calling send, at the granularity the       *)
(* event loop can interleave: a task runs until it awaits a transport      *)
(* write.  Implementation-shaped: this is the algorithm of                 *)
(* _handle_sleep_buffer / OutgoingMessageHandler.handle_set                *)
(*     snapshot of the node's entries;                                     *)
(*     for each entry: await write; then forget the key (PopMode);         *)
(* and a send for a sleeping node overwrites the entry in place.           *)
(*                                                                         *)
(* PopMode = "identity" : forget the key only if it still holds the entry  *)
(*                        that was written (the repaired code)             *)
(*         = "bykey"    : forget the key unconditionally (the defect)      *)
(*         = "before"   : forget before writing (C08's mutant: with Faults  *)
(*                        a failed write loses the command)                *)
(* TLC checks the three invariants of C09 at quiescence over every         *)
(* interleaving and emits every complete schedule for replay on the code.  *)
(***************************************************************************)
EXTENDS Integers, Sequences, FiniteSets, TLC, Json

CONSTANTS Keys, Senders, PopMode, MaxSends,
          DirectSenders,     \* senders addressing a node that is NOT sleeping: their send suspends in its own write
          Faults             \* TRUE: the pending write of the flush may fail (C08 under concurrency)

VARIABLES buf,      \* parked commands: key -> value
          snap,     \* listener: entries still to write (set of <<key, value>>)
          cur,      \* listener: entry whose write is pending
          lpc,      \* "idle" | "writing" | "done" | "failed" | "final"
          todo,     \* sender -> number of sends still to make
          skey,     \* sender -> key it sends to (fixed per run)
          wire,     \* writes handed to the transport, in call order
          sent,     \* values whose send() returned, in return order (initial parking included)
          nsent,    \* counter giving every sent value a distinct identity
          init0,    \* keys parked before the race (constant during a run)
          dpc,      \* direct sender -> "ready" | "writing" | "done"
          dval,     \* direct sender -> value it is writing
          hist      \* schedule so far
vars == <<buf, snap, cur, lpc, todo, skey, wire, sent, nsent, init0, dpc, dval, hist>>

None == <<"none", -1>>
Entries(b) == {<<k, b[k]>> : k \in DOMAIN b}
Upd(f, k, v) == [x \in (DOMAIN f) \cup {k} |-> IF x = k THEN v ELSE f[x]]
Drop(f, k) == [x \in (DOMAIN f) \ {k} |-> f[x]]

Init == /\ init0 \in (SUBSET Keys) \ {{}}
        /\ buf = [k \in init0 |-> 0]                                   \* value 0 = parked before the race
        /\ snap = {} /\ cur = None /\ lpc = "idle"
        /\ todo \in [Senders -> 1..MaxSends]
        /\ skey \in [Senders -> Keys]
        /\ wire = <<>> /\ nsent = 0
        /\ sent = <<>>
        /\ dpc = [d \in DirectSenders |-> "ready"] /\ dval = [d \in DirectSenders |-> 0]
        /\ hist = <<>>

InitSent == {<<k, 0>> : k \in init0}

(* the wake message arrives: snapshot, begin the first write (or finish) *)
LWake == /\ lpc = "idle"
         /\ IF buf = << >> \/ DOMAIN buf = {}
            THEN lpc' = "done" /\ UNCHANGED <<snap, cur, wire, buf>>
            ELSE \E e \in Entries(buf) :
                    /\ snap' = Entries(buf) \ {e}
                    /\ cur' = e
                    /\ buf' = IF PopMode = "before" THEN Drop(buf, e[1]) ELSE buf
                    /\ wire' = Append(wire, e)
                    /\ lpc' = "writing"
         /\ hist' = Append(hist, "LWake")
         /\ UNCHANGED <<todo, skey, sent, nsent, init0, dpc, dval>>

(* the pending write returns: forget the key, begin the next write (no suspension between) *)
LStep == /\ lpc = "writing"
         /\ LET k == cur[1]
                popped == CASE PopMode = "identity" -> IF k \in DOMAIN buf /\ buf[k] = cur[2] THEN Drop(buf, k) ELSE buf
                            [] PopMode = "bykey"    -> IF k \in DOMAIN buf THEN Drop(buf, k) ELSE buf
                            [] OTHER                -> buf
            IN  IF snap = {}
                THEN /\ buf' = popped /\ lpc' = "done" /\ cur' = None /\ UNCHANGED <<snap, wire>>
                ELSE \E e \in snap :
                        /\ snap' = snap \ {e}
                        /\ cur' = e
                        /\ buf' = IF PopMode = "before" THEN Drop(popped, e[1]) ELSE popped
                        /\ wire' = Append(wire, e)
                        /\ UNCHANGED lpc
         /\ hist' = Append(hist, "LStep")
         /\ UNCHANGED <<todo, skey, sent, nsent, init0, dpc, dval>>

(* the pending write fails (C08): the flush ends there and reports the error; the line did not reach the *)
(* node, so it is no write; what was not written stays parked.  At most once per run: the listener does  *)
(* not wake again before the final wake.                                                                 *)
LFail == /\ Faults /\ lpc = "writing"
         /\ wire' = SelectSeq(wire, LAMBDA e : e # cur)
         /\ snap' = {} /\ cur' = None /\ lpc' = "failed"
         /\ hist' = Append(hist, "LFail")
         /\ UNCHANGED <<buf, todo, skey, sent, nsent, init0, dpc, dval>>

(* send(set command) for the sleeping node: parked in place, returns without suspending *)
SSend(s) == /\ todo[s] > 0
            /\ lpc \in {"idle", "writing", "done", "failed"}
            /\ nsent' = nsent + 1
            /\ buf' = Upd(buf, skey[s], nsent + 1)
            /\ sent' = Append(sent, <<skey[s], nsent + 1>>)
            /\ todo' = [todo EXCEPT ![s] = @ - 1]
            /\ hist' = Append(hist, <<"SSend", s, skey[s]>>)
            /\ UNCHANGED <<snap, cur, lpc, wire, skey, init0, dpc, dval>>

(* send(set command) for a node that is not sleeping: the line is handed to the transport at once *)
(* (its key - the sender name - is never parked), the call returns when the write completes            *)
SBegin(d) == /\ dpc[d] = "ready" /\ lpc \in {"idle", "writing", "done", "failed"}
             /\ nsent' = nsent + 1
             /\ dval' = [dval EXCEPT ![d] = nsent + 1]
             /\ wire' = Append(wire, <<d, nsent + 1>>)
             /\ dpc' = [dpc EXCEPT ![d] = "writing"]
             /\ hist' = Append(hist, <<"SBegin", d>>)
             /\ UNCHANGED <<buf, snap, cur, lpc, todo, skey, sent, init0>>
SEnd(d) == /\ dpc[d] = "writing"
           /\ sent' = Append(sent, <<d, dval[d]>>)
           /\ dpc' = [dpc EXCEPT ![d] = "done"]
           /\ hist' = Append(hist, <<"SEnd", d>>)
           /\ UNCHANGED <<buf, snap, cur, lpc, todo, skey, wire, nsent, init0, dval>>

(* everybody has finished; the node wakes once more (sequential flush) *)
FinalWake == /\ lpc \in {"done", "failed"} /\ \A s \in Senders : todo[s] = 0 /\ \A d \in DirectSenders : dpc[d] = "done"
             /\ \E order \in {q \in [1..Cardinality(DOMAIN buf) -> Entries(buf)] :
                                 \A e \in Entries(buf) : \E i \in DOMAIN q : q[i] = e} :
                   wire' = wire \o order
             /\ buf' = [x \in {} |-> 0]
             /\ lpc' = "final"
             /\ hist' = Append(hist, "FinalWake")
             /\ UNCHANGED <<snap, cur, todo, skey, sent, nsent, init0, dpc, dval>>

Next == LWake \/ LStep \/ LFail \/ FinalWake \/ (\E s \in Senders : SSend(s)) \/ (\E d \in DirectSenders : SBegin(d) \/ SEnd(d))
Spec == Init /\ [][Next]_vars
FairSpec == Spec /\ WF_vars(Next)

-----------------------------------------------------------------------------
AllSent == InitSent \cup {sent[i] : i \in 1..Len(sent)}
           \cup {<<d, dval[d]>> : d \in {x \in DirectSenders : dpc[x] # "ready"}}     \* sends in progress count as started
KeysSent == {e[1] : e \in AllSent} \cup {wire[i][1] : i \in 1..Len(wire)}
LastOf(seq, k) == LET idx == {i \in 1..Len(seq) : seq[i][1] = k} IN
                  IF idx = {} THEN -1 ELSE seq[CHOOSE i \in idx : \A j \in idx : j <= i][2]
LastSent(k) == IF LastOf(sent, k) = -1 THEN 0 ELSE LastOf(sent, k)
Count(seq, e) == Cardinality({i \in 1..Len(seq) : seq[i] = e})

Quiescent == lpc = "final"
(* C09: the last value sent for each key is the last value written for it *)
NoLostUpdate == Quiescent => \A k \in KeysSent : LastOf(wire, k) = LastSent(k)
OnlySentValues == \A i \in 1..Len(wire) : wire[i] \in AllSent
NoMoreOftenThanSent == \A i \in 1..Len(wire) : Count(wire, wire[i]) <= 1   \* every sent value has its own identity
Terminates == <>(lpc = "final")

(* every complete schedule, for replay on the real code *)
SetToSeq(S) == CHOOSE q \in [1..Cardinality(S) -> S] : \A x \in S : \E i \in 1..Cardinality(S) : q[i] = x
EmitSchedule == (lpc' = "final") =>
    PrintT(<<"SCHEDULE", ToJson([init |-> SetToSeq(init0), hist |-> hist'])>>)
=============================================================================
