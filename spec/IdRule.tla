------------------------------- MODULE IdRule -------------------------------
(* The id-allocation rule of C11 for every registry and any number of steps:  *)
(* no bound on the number of nodes, requests or presentations.  Same actions  *)
(* as spec/apalache/IdAlloc.tla.  Proved in spec/proofs/IdAllocProof.tla      *)
(* (TLAPS); the controller reference refines it (spec/mc/MC_idrule.tla, TLC). *)
EXTENDS Integers

CONSTANT MaxNodeId
ASSUME MaxAssumption == MaxNodeId \in Nat /\ MaxNodeId <= 254

VARIABLES nodes, handed, last
vars == <<nodes, handed, last>>

Init == nodes \in SUBSET (0..255) /\ handed = {} /\ last = 0

Present(n) == nodes' = nodes \union {n} /\ UNCHANGED <<handed, last>>
Allocate(id) == /\ id \in (1..MaxNodeId) \ nodes
                /\ nodes' = nodes \union {id} /\ handed' = handed \union {id} /\ last' = id
Next == (\E n \in 0..255 : Present(n)) \/ (\E id \in 1..MaxNodeId : Allocate(id))
Spec == Init /\ [][Next]_vars

IndInv == /\ nodes \subseteq 0..255 /\ handed \subseteq nodes /\ handed \subseteq 1..MaxNodeId
          /\ (last = 0 \/ last \in handed)

(* an id handed out in a step was not registered before, and is in range *)
Fresh == handed' \ handed \subseteq (1..MaxNodeId) \ nodes
(* nothing is ever removed, and an id is handed out at most once *)
Monotone == nodes \subseteq nodes' /\ handed \subseteq handed'
=============================================================================
