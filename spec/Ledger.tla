-------------------------- MODULE Ledger ---------------------------------
(* The sleep buffer as a ledger (C07 / C08), for any number of nodes, keys,   *)
(* values and steps.  Same actions as spec/apalache/SleepLedger.tla, without  *)
(* its bounds.  Proved in spec/proofs/SleepLedgerProof.tla (TLAPS); the       *)
(* controller reference refines it (spec/mc/MC_ledger.tla, TLC).              *)
(*   buf     what the controller holds: key -> parked value                   *)
(*   last    ghost: key -> the latest value sent for the key                  *)
(*   sup     keys whose parked value was superseded by a direct write         *)
(*   wrote   what the step wrote: set of <<key, value>>                       *)
EXTENDS Integers

CONSTANTS Nodes, Keys, Vals, NodeOf(_)
ASSUME KeysAssumption == \A k \in Keys : NodeOf(k) \in Nodes

VARIABLES sleeping, buf, last, sup, wrote
vars == <<sleeping, buf, last, sup, wrote>>

Put(f, k, v) == [x \in (DOMAIN f) \union {k} |-> IF x = k THEN v ELSE f[x]]
Del(f, ks)   == [x \in (DOMAIN f) \ ks |-> f[x]]
Empty        == [x \in {} |-> 0]

Init == /\ sleeping \in SUBSET Nodes
        /\ buf = Empty /\ last = Empty /\ sup = {} /\ wrote = {}

(* send(set command for key k with value v, message_buffer = b) *)
Send(k, v, b) ==
    /\ last' = Put(last, k, v)
    /\ IF b /\ NodeOf(k) \in sleeping
       THEN /\ buf' = Put(buf, k, v) /\ wrote' = {} /\ sup' = sup \ {k}
            /\ UNCHANGED sleeping
       ELSE /\ wrote' = {<<k, v>>} /\ sup' = IF k \in DOMAIN buf THEN sup \union {k} ELSE sup
            /\ UNCHANGED <<buf, sleeping>>

(* node n announces it is awake: the parked commands in ok are written and forgotten (all of the node's, *)
(* or a strict subset when a write fails); superseded ones (drop) may be forgotten without being written *)
Wake(n, ok, drop) ==
    /\ ok \subseteq {k \in DOMAIN buf : NodeOf(k) = n}
    /\ drop \subseteq {k \in sup : NodeOf(k) = n}
    /\ wrote' = {<<k, buf[k]>> : k \in ok}
    /\ buf' = Del(buf, ok \union drop) /\ sup' = sup \ (ok \union drop)
    /\ sleeping' = sleeping \union {n} /\ UNCHANGED last

Represent(n) == sleeping' = sleeping \ {n} /\ wrote' = {} /\ UNCHANGED <<buf, last, sup>>
(* anything else the controller does (other messages, failed sends): no set command is written or parked *)
Idle == wrote' = {} /\ UNCHANGED <<sleeping, buf, last, sup>>

Next == \/ \E k \in Keys, v \in Vals, b \in BOOLEAN : Send(k, v, b)
        \/ \E n \in Nodes : \E ok, drop \in SUBSET (DOMAIN buf) : Wake(n, ok, drop)
        \/ \E n \in Nodes : Represent(n)
        \/ Idle
Spec == Init /\ [][Next]_vars

IndInv == /\ sleeping \subseteq Nodes
          /\ DOMAIN buf \subseteq Keys /\ DOMAIN buf \subseteq DOMAIN last
          /\ sup \subseteq DOMAIN buf
          /\ \A k \in DOMAIN buf : k \notin sup => buf[k] = last[k]

(* a released command that was not superseded carries the latest value sent for its key,   *)
(* it is forgotten once written, and only commands of the woken node (or the command being *)
(* sent to a node not known to sleep) are written                                          *)
ReleasedLiveIsLatest ==
    \A e \in wrote' : (e[1] \in DOMAIN buf /\ e[1] \notin sup) => e[2] = last'[e[1]]
WrittenIsForgotten ==
    \A e \in wrote' : e[1] \in DOMAIN buf' => e[1] \in sup'
(* nothing live that is parked is lost except by being written *)
NothingLost ==
    \A k \in DOMAIN buf : k \in sup \/ k \in DOMAIN buf' \/ (\E e \in wrote' : e[1] = k /\ e[2] = buf[k])
=============================================================================
