------------------------------ MODULE Lifecycle ------------------------------
(***************************************************************************)
(* C16, implementation-shaped: the gateway context as two tasks and their  *)
(* thread-pool file jobs, at the granularity the event loop interleaves.   *)
(*                                                                         *)
(*   main  : load -> start saver -> connect (succeeds | fails | hangs and  *)
(*           the caller is cancelled) -> body -> disconnect ->             *)
(*           stop saver -> final save (open, write, close) -> done         *)
(*   saver : loop { save (open, write, close); wait 900 s or stop }        *)
(*                                                                         *)
(* Each file operation is a job: issued by its task (which then waits),    *)
(* run (its effect on the disk happens) and delivered (the task resumes)   *)
(* by the environment, in any order across tasks.                          *)
(*                                                                         *)
(* StopMode = "event"  : stop() signals the saver and lets a save finish   *)
(*                       (the repaired code)                               *)
(*          = "cancel" : stop() cancels the saver task wherever it is and  *)
(*                       awaits it (the original code): cancellation       *)
(*                       surfaces in main unless the saver was sleeping,   *)
(*                       and a job that already ran keeps its effect       *)
(* GuardConnect        : the context stops persistence when connect or     *)
(*                       disconnect fails (the repaired code)              *)
(***************************************************************************)
EXTENDS Integers, Sequences, FiniteSets, TLC, Json

CONSTANTS StopMode, GuardConnect, MaxMut, MaxTicks

VARIABLES mpc, spc, stop, reg, disk, msnap, ssnap, job, connected, disconnects, exc, now, lastSave, deadline,
          cfail, dfail, braise, nmut, nticks, hist
vars == <<mpc, spc, stop, reg, disk, msnap, ssnap, job, connected, disconnects, exc, now, lastSave, deadline,
          cfail, dfail, braise, nmut, nticks, hist>>

Interval == 900
View == <<mpc, spc, stop, reg, disk, msnap, ssnap, job, connected, disconnects, exc, now, lastSave, deadline,
          cfail, dfail, braise, nmut, nticks>>
NoJob == [st |-> "none", op |-> ""]
Tasks == {"main", "saver"}

Init == /\ mpc = "start" /\ spc = "none" /\ stop = FALSE /\ reg = 0 /\ disk = 0
        /\ msnap = 0 /\ ssnap = 0 /\ job = [t \in Tasks |-> NoJob]
        /\ connected = FALSE /\ disconnects = 0 /\ exc = "none" /\ now = 0 /\ lastSave = -1 /\ deadline = -1
        /\ cfail \in {"no", "fail", "cancel"} /\ dfail \in BOOLEAN /\ braise \in BOOLEAN
        /\ nmut = 0 /\ nticks = 0 /\ hist = <<>>

Issue(t, op) == job' = [job EXCEPT ![t] = [st |-> "queued", op |-> op]]

(* --- main ------------------------------------------------------------------------- *)
\* load is done before any concurrency exists; start creates the saver task (not yet running)
MStart == /\ mpc = "start" /\ spc' = "created" /\ mpc' = "connect"
          /\ UNCHANGED <<stop, reg, disk, msnap, ssnap, job, connected, disconnects, exc, now, lastSave, deadline, cfail, dfail, braise, nmut, nticks, hist>>
MConnect == /\ mpc = "connect"
            /\ CASE cfail = "fail" ->
                       /\ exc' = "Transport"
                       /\ mpc' = IF GuardConnect THEN "stop" ELSE "failed"
                       /\ UNCHANGED connected
                 [] cfail = "cancel" ->        \* the connection attempt hangs; the caller gives up later (MCancel)
                       /\ mpc' = "connecting" /\ UNCHANGED <<exc, connected>>
                 [] OTHER -> connected' = TRUE /\ mpc' = "body" /\ UNCHANGED exc
            /\ UNCHANGED <<spc, stop, reg, disk, msnap, ssnap, job, disconnects, now, lastSave, deadline, cfail, dfail, braise, nmut, nticks, hist>>
(* the caller is cancelled (a timeout around entering the context) while connect is pending; the saver, *)
(* created before connect, may be anywhere                                                              *)
MCancel == /\ mpc = "connecting"
           /\ exc' = "Cancelled"
           /\ mpc' = IF GuardConnect THEN "stop" ELSE "failed"
           /\ hist' = Append(hist, <<"cancel">>)
           /\ UNCHANGED <<spc, stop, reg, disk, msnap, ssnap, job, connected, disconnects, now, lastSave, deadline, cfail, dfail, braise, nmut, nticks>>
Mutate == /\ mpc = "body" /\ nmut < MaxMut
          /\ reg' = reg + 1 /\ nmut' = nmut + 1 /\ hist' = Append(hist, <<"mutate">>)
          /\ UNCHANGED <<mpc, spc, stop, disk, msnap, ssnap, job, connected, disconnects, exc, now, lastSave, deadline, cfail, dfail, braise, nticks>>
BodyFinish == /\ mpc = "body"
              /\ exc' = IF braise THEN "Body" ELSE exc
              /\ mpc' = "disconnect" /\ hist' = Append(hist, <<"finish">>)
              /\ UNCHANGED <<spc, stop, reg, disk, msnap, ssnap, job, connected, disconnects, now, lastSave, deadline, cfail, dfail, braise, nmut, nticks>>
MDisconnect == /\ mpc = "disconnect"
               /\ disconnects' = disconnects + 1
               /\ IF dfail
                  THEN /\ exc' = IF exc = "none" THEN "Transport" ELSE exc
                       /\ mpc' = IF GuardConnect THEN "stop" ELSE "failed"
                  ELSE mpc' = "stop" /\ UNCHANGED exc
               /\ UNCHANGED <<spc, stop, reg, disk, msnap, ssnap, job, connected, now, lastSave, deadline, cfail, dfail, braise, nmut, nticks, hist>>
(* stop(): signal or cancel the saver, then wait for it *)
MStop == /\ mpc = "stop"
         /\ IF StopMode = "event"
            THEN /\ stop' = TRUE /\ mpc' = "await" /\ UNCHANGED <<spc, job, exc>>
            ELSE \* cancel: the saver task ends at once; a queued job is dropped, a job that ran keeps its effect;
                 \* awaiting a task cancelled anywhere but in its sleep re-raises the cancellation in main
                 /\ spc' = "finished"
                 /\ job' = [job EXCEPT !["saver"] = NoJob]
                 /\ IF spc = "waiting" THEN (mpc' = "fsave" /\ UNCHANGED exc)
                    ELSE (mpc' = "failed" /\ exc' = "Cancelled")
                 /\ UNCHANGED stop
         /\ UNCHANGED <<reg, disk, msnap, ssnap, connected, disconnects, now, lastSave, deadline, cfail, dfail, braise, nmut, nticks, hist>>
MAwait == /\ mpc = "await" /\ spc = "finished" /\ mpc' = "fsave"
          /\ UNCHANGED <<spc, stop, reg, disk, msnap, ssnap, job, connected, disconnects, exc, now, lastSave, deadline, cfail, dfail, braise, nmut, nticks, hist>>
(* final save: serialise, then open / write / close as jobs *)
MSaveBegin == /\ mpc = "fsave" /\ msnap' = reg /\ mpc' = "f_open" /\ Issue("main", "open")
              /\ UNCHANGED <<spc, stop, reg, disk, ssnap, connected, disconnects, exc, now, lastSave, deadline, cfail, dfail, braise, nmut, nticks, hist>>

(* --- saver ------------------------------------------------------------------------ *)
SRun == /\ spc \in {"created", "loop"}
        /\ IF stop THEN spc' = "finished" /\ UNCHANGED <<ssnap, job>>
           ELSE /\ ssnap' = reg /\ spc' = "s_open" /\ Issue("saver", "open")
        /\ UNCHANGED <<mpc, stop, reg, disk, msnap, connected, disconnects, exc, now, lastSave, deadline, cfail, dfail, braise, nmut, nticks, hist>>
SWake == /\ spc = "waiting" /\ (stop \/ now >= deadline) /\ spc' = "loop"
         /\ UNCHANGED <<mpc, stop, reg, disk, msnap, ssnap, job, connected, disconnects, exc, now, lastSave, deadline, cfail, dfail, braise, nmut, nticks, hist>>

(* --- the thread pool -------------------------------------------------------------- *)
Effect(t, op) ==
    CASE op = "open"  -> disk' = -2                                     \* truncated in place
      [] op = "write" -> disk' = IF t = "main" THEN msnap ELSE ssnap
      [] OTHER        -> UNCHANGED disk
NextOp(op) == IF op = "open" THEN "write" ELSE IF op = "write" THEN "close" ELSE "done"
\* mode "full" = run + deliver, "run" = the effect happens now, "deliver" = the task resumes
JobStep(t, mode) ==
    /\ job[t].st = (IF mode = "deliver" THEN "ran" ELSE "queued")
    /\ IF mode = "deliver" THEN UNCHANGED disk ELSE Effect(t, job[t].op)
    /\ lastSave' = IF mode # "deliver" /\ job[t].op = "close" THEN now ELSE lastSave
    /\ IF mode = "run"
       THEN /\ job' = [job EXCEPT ![t].st = "ran"] /\ UNCHANGED <<mpc, spc, deadline>>
       ELSE LET nxt == NextOp(job[t].op) IN
            IF nxt # "done"
            THEN /\ job' = [job EXCEPT ![t] = [st |-> "queued", op |-> nxt]] /\ UNCHANGED <<mpc, spc, deadline>>
            ELSE /\ job' = [job EXCEPT ![t] = NoJob]
                 /\ IF t = "main" THEN (mpc' = "done" /\ UNCHANGED <<spc, deadline>>)
                    ELSE (spc' = "waiting" /\ deadline' = now + Interval /\ UNCHANGED mpc)
    /\ hist' = Append(hist, <<"job", t, mode>>)
    /\ UNCHANGED <<stop, reg, msnap, ssnap, connected, disconnects, exc, now, cfail, dfail, braise, nmut, nticks>>

(* time passes only while nothing is runnable: the saver sleeps, no job is outstanding *)
Tick == /\ mpc = "body" /\ spc = "waiting" /\ now < deadline /\ nticks < MaxTicks
        /\ \A t \in Tasks : job[t] = NoJob
        /\ now' = deadline /\ nticks' = nticks + 1 /\ hist' = Append(hist, <<"tick">>)
        /\ UNCHANGED <<mpc, spc, stop, reg, disk, msnap, ssnap, job, connected, disconnects, exc, lastSave, deadline, cfail, dfail, braise, nmut>>

Next == MStart \/ MConnect \/ MCancel \/ Mutate \/ BodyFinish \/ MDisconnect \/ MStop \/ MAwait \/ MSaveBegin \/ SRun \/ SWake \/ Tick
        \/ \E t \in Tasks, m \in {"full", "run", "deliver"} : JobStep(t, m)
Spec == Init /\ [][Next]_vars
FairSpec == Spec /\ WF_vars(Next)

-----------------------------------------------------------------------------
(* Reference properties of C16 *)
Exited == mpc \in {"done", "failed"}
Quiet  == \A t \in Tasks : job[t] = NoJob
ExitSavesFinalRegistry == (Exited /\ Quiet /\ cfail = "no") => disk = reg
ExitDisconnects        == (Exited /\ connected) => disconnects = 1
NoTaskLeft             == (Exited /\ Quiet) => spc \in {"finished", "none"}
ExceptionIsTheBodys    == (Exited /\ cfail = "no") => exc \in {"none", "Body", "Transport"} /\ (exc = "Transport" => dfail)
FailedConnectPropagates == /\ (Exited /\ cfail = "fail") => exc = "Transport"
                           /\ (Exited /\ cfail = "cancel") => exc = "Cancelled"
Cadence == (mpc = "body" /\ Quiet /\ spc = "waiting") => now - lastSave <= Interval
Terminates == <>(Exited /\ Quiet)

EmitSchedule == (Exited' /\ ~Exited) =>
    PrintT(<<"SCHEDULE", ToJson([connectFails |-> cfail, disconnectFails |-> dfail, bodyRaises |-> braise, hist |-> hist'])>>)
=============================================================================
