-------------------------- MODULE LifecycleMonitor --------------------------
(***************************************************************************)
(* C16, reference role: judges executions of the REAL gateway context      *)
(* recorded on the virtual-time loop.  It knows nothing about start / stop *)
(* / saver internals, only observations after each harness command:        *)
(*   t (virtual seconds), disk (what the file denotes: number of registry  *)
(*   changes it contains; -1 partial, -2 empty, -3 no file), reg (number   *)
(*   of registry changes so far), inside, alive (tasks other than the      *)
(*   caller), pending (file jobs not yet completed), connects, disconnects,*)
(*   completed file jobs (owner, kind, mode), and the exception leaving    *)
(*   the context.                                                          *)
(***************************************************************************)
EXTENDS Integers, Sequences, FiniteSets, TLC, Json, IOUtils

Runs == JsonDeserialize(IOEnv.TRACE_FILE).runs
VARIABLES rid, done
mvars == <<rid, done>>

SaveInterval == 900
E(r) == Runs[r].events
Last(r) == E(r)[Len(E(r))]
Sc(r) == Runs[r].scen

Ran(e) == e.e = "job" /\ e.mode \in {"full", "run"}       \* the job's side effect has happened
(* a save is complete when a close has run whose task's previous file job was a write *)
SaveDone(r, i) ==
    /\ Ran(E(r)[i]) /\ E(r)[i].kind = "close"
    /\ LET prev == {j \in 1..(i-1) : Ran(E(r)[j]) /\ E(r)[j].owner = E(r)[i].owner} IN
       prev # {} /\ E(r)[CHOOSE j \in prev : \A k \in prev : k <= j].kind = "write"

AllowedExc(r) ==
    IF Sc(r).disconnect_fail /\ Sc(r).transport = "fake"
    THEN {"Transport"} \cup (IF Sc(r).finish = "raise" THEN {"Body"} ELSE {"none"})
    ELSE IF Sc(r).finish = "raise" THEN {"Body"}
    ELSE IF Sc(r).finish = "eof" THEN {"Transport"}      \* the body's read met the end of the stream
    ELSE {"none"}

(* while inside and with no file job outstanding, a save completed at most 15 minutes ago *)
CadenceOK(r) ==
    \A i \in 1..Len(E(r)) :
        (E(r)[i].inside /\ E(r)[i].pending = 0 /\ ~E(r)[i].main_done) =>
            \E j \in 1..i : SaveDone(r, j) /\ E(r)[i].t - E(r)[j].t <= SaveInterval

(* at the moment the caller gets control back nothing is left to do: no task, no file job, file = registry *)
ExitInstantOK(r) ==
    \A i \in 1..Len(E(r)) :
        E(r)[i].exit_instant => (E(r)[i].alive = 0 /\ E(r)[i].pending = 0
                                 /\ (Sc(r).connect_fail \/ Sc(r).connect_cancel \/ E(r)[i].disk = E(r)[i].reg))

Verdict(r) ==
    LET z == Last(r) IN
    IF z.kind = "stuck" THEN "stuck"
    ELSE IF Sc(r).connect_cancel THEN
        \* entering the context was abandoned (caller cancelled while connect was pending)
        (IF z.kind # "Cancelled" THEN "cancellation-not-propagated"
         ELSE IF z.alive # 0 \/ ~ExitInstantOK(r) THEN "task-left-after-cancelled-connect"
         ELSE "ok")
    ELSE IF Sc(r).connect_fail THEN
        (IF z.kind # "Transport" THEN "connect-error-not-propagated"
         ELSE IF z.alive # 0 \/ ~ExitInstantOK(r) THEN "task-left-after-failed-connect"
         ELSE "ok")
    ELSE IF z.kind \notin AllowedExc(r) THEN "wrong-exception"
    ELSE IF z.connects >= 1 /\ z.disconnects # 1 THEN "not-disconnected"
    ELSE IF z.disk # z.reg THEN "final-registry-not-saved"
    \* the same gateway object is entered again after the file was edited in between (node 90: level 77):
    \* entering loads the file, so the registry - and the final save - carry the edited value
    ELSE IF Sc(r).external_edit /\ (z.mark # 77 \/ z.dmark # 77) THEN "file-not-loaded-on-entering"
    ELSE IF z.alive # 0 THEN "task-left"
    ELSE IF ~ExitInstantOK(r) THEN "work-left-when-the-context-returned"
    ELSE IF ~CadenceOK(r) THEN "cadence"
    ELSE "ok"

Init == rid \in 1..Len(Runs) /\ done = FALSE
Next == ~done /\ done' = TRUE /\ rid' = rid /\ PrintT(<<"VERDICT", rid, Verdict(rid)>>)
Spec == Init /\ [][Next]_mvars
=============================================================================
