-------------------------------- MODULE Mqtt --------------------------------
(***************************************************************************)
(* C18.  The MQTT transport: topic <-> line mapping, subscriptions, the    *)
(* FIFO between the broker callback and read(), the receive task's life.   *)
(* Topics are sequences of levels (strings); payloads are byte sequences.  *)
(***************************************************************************)
EXTENDS MqttCore, Json

CONSTANTS Prefixes,     \* set of <<in-prefix levels, out-prefix levels>>
          Deliveries,   \* set of broker deliveries  [k: "msg"|"bad"|"error", f: five field strings, p: bytes]
          WriteMsgs,    \* set of lines (code points) the application may write
          MaxDeliveries, MaxReads, MaxWrites, WithFaults

VARIABLES prefix, conn, queue, pending, reads, pubs, ndel, dead, hist
vars == <<prefix, conn, queue, pending, reads, pubs, ndel, dead, hist>>
View == <<prefix, conn, queue, pending, reads, pubs, ndel, dead>>

Init == /\ prefix \in Prefixes /\ conn = "new" /\ queue = <<>> /\ pending = FALSE /\ reads = <<>>
        /\ pubs = <<>> /\ ndel = 0 /\ dead = FALSE /\ hist = <<>>

Connect(how) ==   \* how: "ok" | "connect-fails" | "subscribe-fails"
    /\ conn = "new"
    /\ conn' = IF how = "ok" THEN "connected" ELSE "failed"     \* a failed transport object is not reused
    /\ reads' = IF how = "ok" THEN reads ELSE Append(reads, <<"connect-terr">>)
    /\ hist' = Append(hist, <<"connect", how>>)
    /\ UNCHANGED <<prefix, queue, pending, pubs, ndel, dead>>

(* the broker delivers: a message whose payload decodes, one whose payload does not, or an error *)
Deliver(d) ==
    /\ conn = "connected" /\ ~dead /\ ndel < MaxDeliveries
    /\ ndel' = ndel + 1
    /\ queue' = Append(queue, IF d.k = "msg" THEN <<"line", d.f, d.p>> ELSE <<"terr">>)
    /\ dead' = (d.k = "error")          \* after a broker error the receive loop has ended
    /\ hist' = Append(hist, <<"deliver", d>>)
    /\ UNCHANGED <<prefix, conn, pending, reads, pubs>>

ReadStart == /\ conn = "connected" /\ ~pending /\ Len(reads) < MaxReads
             /\ pending' = TRUE /\ hist' = Append(hist, <<"read">>)
             /\ UNCHANGED <<prefix, conn, queue, reads, pubs, ndel, dead>>
ReadDone == /\ pending /\ queue # <<>>
            /\ reads' = Append(reads, Head(queue)) /\ queue' = Tail(queue) /\ pending' = FALSE
            /\ UNCHANGED <<prefix, conn, pubs, ndel, dead, hist>>

Write(line, ok) ==
    /\ conn = "connected" /\ Len(pubs) < MaxWrites
    /\ pubs' = Append(pubs, IF ok THEN Decode(line) ELSE [k |-> "failed"])
    /\ hist' = Append(hist, <<"write", line, ok>>)
    /\ UNCHANGED <<prefix, conn, queue, pending, reads, ndel, dead>>

Disconnect == /\ conn = "connected" /\ ~pending
              /\ conn' = "closed" /\ hist' = Append(hist, <<"disconnect">>)
              /\ UNCHANGED <<prefix, queue, pending, reads, pubs, ndel, dead>>

Next == \/ \E how \in (IF WithFaults THEN {"ok", "connect-fails", "subscribe-fails"} ELSE {"ok"}) : Connect(how)
        \/ \E d \in Deliveries : Deliver(d)
        \/ ReadStart \/ ReadDone \/ Disconnect
        \/ \E w \in WriteMsgs, ok \in (IF WithFaults THEN BOOLEAN ELSE {TRUE}) : Write(w, ok)
Spec == Init /\ [][Next]_vars
FairSpec == Spec /\ WF_vars(ReadDone)

-----------------------------------------------------------------------------
(* Fifo: what the reads returned so far is a prefix of what the broker delivered, each once *)
Delivered == SelectSeq(hist, LAMBDA h : h[1] = "deliver")
OutcomeOf(h) == IF h[2].k = "msg" THEN <<"line", h[2].f, h[2].p>> ELSE <<"terr">>
ReadOutcomes == SelectSeq(reads, LAMBDA r : TRUE)
ReadRes == SelectSeq(reads, LAMBDA r : r[1] \in {"line", "terr"})
Fifo == \A i \in 1..Len(ReadRes) : i <= Len(Delivered) /\ ReadRes[i] = OutcomeOf(Delivered[i])
(* never silently deaf: a read is never left waiting while something was delivered *)
NeverDeaf == [](pending /\ queue # <<>> => <>(~pending))
(* the subscriptions  <in>/+/+/<cmd>/+/+  cover every in-topic with command 0-4 *)
SubFilters(inp) == {inp \o <<"+", "+", c, "+", "+">> : c \in {"0", "1", "2", "3", "4"}}
SubscriptionsCoverInTopics ==
    (hist = <<>>) =>      \* depends on the prefix only: evaluated once per prefix
    \A n \in {"0", "255"}, c \in {"0", "255"}, cmd \in {"0", "1", "2", "3", "4"}, a \in {"0", "1"}, t \in {"0", "49"} :
        \E f \in SubFilters(prefix[1]) : Matches(f, prefix[1] \o <<n, c, cmd, a, t>>)
(* a message written and echoed under the in-prefix decodes to the same message (payloads with ';' included) *)
EchoRoundTrip ==
    (hist = <<>>) =>
    \A w \in WriteMsgs :
        LET m == Decode(w) IN
        m.k = "msg" =>
            LET topic == prefix[1] \o <<Digits(m.n), Digits(m.c), Digits(m.cmd), Digits(m.ack), m.t>>
                line  == Join(LastFive(topic) \o <<m.p>>, SEMI)
            IN  Decode(line) = m
Emit == PrintT(<<"COVER", ToJson([prefix |-> prefix, hist |-> hist'])>>)
=============================================================================
