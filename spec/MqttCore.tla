------------------------------ MODULE MqttCore ------------------------------
(* Pure functions shared by Mqtt.tla (model) and MqttTrace.tla. *)
EXTENDS Codec

(* MQTT filter matching (OASIS MQTT 3.1.1, 4.7): '+' one level, '#' the rest *)
RECURSIVE MatchesG(_, _, _, _)
MatchesG(filter, topic, plus, hash) ==
    IF Len(filter) = 0 THEN Len(topic) = 0
    ELSE IF filter[1] = hash THEN Len(filter) = 1
    ELSE IF Len(topic) = 0 THEN FALSE
    ELSE (filter[1] = plus \/ filter[1] = topic[1]) /\ MatchesG(Tail(filter), Tail(topic), plus, hash)
Matches(filter, topic) == MatchesG(filter, topic, "+", "#")      \* levels as strings (model)

(* the line a broker message is read back as: the last five topic levels and the payload *)
LastFive(topic) == SubSeq(topic, Len(topic) - 4, Len(topic))

=============================================================================
