------------------------------ MODULE MqttTrace ------------------------------
(* C18, code -> spec: operations recorded from the real MQTTClient over a     *)
(* fake aiomqtt client (and from a minimal MQTTTransport subclass), judged    *)
(* against the reference: topic <-> line mapping, QoS = ack, subscriptions    *)
(* covering the in-topics, FIFO delivery of messages and errors each once,    *)
(* no silent deafness, connect then disconnect without raising.               *)
EXTENDS MqttCore, StreamCore, Json, IOUtils

Runs == JsonDeserialize(IOEnv.TRACE_FILE).runs
VARIABLES rid, l, tconn, q, pend
tvars == <<rid, l, tconn, q, pend>>
Ev == Runs[rid].events[l]
InP == Runs[rid].inp       \* in-prefix levels
OutP == Runs[rid].outp     \* out-prefix levels

(* in traces every level is a code-point sequence: '+' = <<43>>, '#' = <<35>> *)
MatchesCp(filter, topic) == MatchesG(filter, topic, <<43>>, <<35>>)

Step ==
    /\ l <= Len(Runs[rid].events)
    /\ LET e == Ev IN
       CASE e.op = "connect" ->
              /\ IF e.fault = "none"
                 THEN /\ e.res = "ok" /\ tconn' = "connected"
                      /\ \A cmd \in {<<48>>, <<49>>, <<50>>, <<51>>, <<52>>} :
                            \E i \in 1..Len(e.subs) :
                                /\ MatchesCp(e.subs[i], InP \o << <<49>>, <<50,53,53>>, cmd, <<48>>, <<49,55>> >>)
                                /\ MatchesCp(e.subs[i], InP \o << <<50,53,52>>, <<48>>, cmd, <<49>>, <<48>> >>)
                 ELSE e.res = "terr" /\ UNCHANGED tconn
              /\ UNCHANGED <<q, pend>>
         [] e.op = "broker_msg" ->
              \* topic = in-prefix + five levels; the payload decodes or not
              /\ LET d == Utf8Decode(e.bytes) IN
                 q' = Append(q, IF d.ok THEN <<"line", Join(LastFive(e.topic) \o <<d.s>>, SEMI)>> ELSE <<"terr">>)
              /\ UNCHANGED <<tconn, pend>>
         [] e.op = "broker_error" -> q' = Append(q, <<"terr">>) /\ UNCHANGED <<tconn, pend>>
         [] e.op = "read_start" -> pend' = pend + 1 /\ UNCHANGED <<tconn, q>>
         [] e.op = "read_cancelled" -> pend' = pend - 1 /\ UNCHANGED <<tconn, q>>     \* the caller gave up; nothing was delivered to it
         [] e.op = "read_done" ->
              /\ q # <<>>                                   \* nothing is read that was not delivered
              /\ IF Head(q)[1] = "line" THEN (e.res = "line" /\ e.s = Head(q)[2]) ELSE e.res = "terr"
              /\ q' = Tail(q) /\ pend' = pend - 1 /\ UNCHANGED tconn
         [] e.op = "write" ->
              /\ LET m == Decode(e.s) IN
                 IF e.fault # "none" THEN e.res = "terr"
                 ELSE /\ e.res = "ok"
                      /\ m.k = "msg" =>
                            /\ e.topic = OutP \o <<Digits(m.n), Digits(m.c), Digits(m.cmd), Digits(m.ack), m.t>>
                            /\ e.payload = m.p
                            /\ e.qos = m.ack
              /\ UNCHANGED <<tconn, q, pend>>
         [] e.op = "disconnect" -> e.res = "ok" /\ tconn' = "closed" /\ UNCHANGED <<q, pend>>
         [] e.op = "end" ->
              /\ (pend > 0) => q = <<>>                     \* never deaf: no read waits while deliveries are queued
              /\ UNCHANGED <<tconn, q, pend>>
         [] OTHER -> FALSE                                   \* an event the reference has no rule for (e.g. a hook that failed)
    /\ l' = l + 1 /\ rid' = rid

TInit == /\ rid \in 1..Len(Runs) /\ l = 1 /\ tconn = "new" /\ q = <<>> /\ pend = 0
TSpec == TInit /\ [][Step]_tvars
Accepted == (l = Len(Runs[rid].events) + 1) => PrintT(<<"ACCEPT", rid>>)
Stuck    == (l <= Len(Runs[rid].events) /\ ~ENABLED Step) => PrintT(<<"REJECT", rid, l>>)
=============================================================================
