----------------------------- MODULE MySensors -----------------------------
(***************************************************************************)
(* The controller core as a state machine over a bounded alphabet of       *)
(* events.  Each focus configuration (spec/mc/MC_*.tla) supplies           *)
(*   Alphabet   : the events the environment may produce (received lines,  *)
(*                send calls, reboot flags, with fault positions),         *)
(*   InitStates : the public states a run may start from ("restored from   *)
(*                persistence": registries, version known/unknown).        *)
(* TLC checks the formulas below on every reachable state / transition and *)
(* emits one history per abstract transition (Emit) which the harness      *)
(* replays on the real code.                                               *)
(***************************************************************************)
EXTENDS MySensorsCore, Json

CONSTANTS Alphabet, InitStates, MaxDepth

VARIABLES st,     \* [nodes, ver, proto, metric, setbuf, asked, held]
          obs,    \* observation of the last step (hidden from the fingerprint by the VIEW)
          hist    \* indices into Alphabet of the events so far   (hidden by the VIEW)

vars == <<st, obs, hist>>
View == st

NoObs == [ev |-> [k |-> "init"], out |-> Done, react |-> <<>>, pres |-> <<>>, presOk |-> FALSE,
          rel |-> {}, relFail |-> {}]

Install(s, r) == [s EXCEPT !.nodes = r.nodes, !.ver = r.ver, !.proto = r.proto,
                           !.setbuf = r.setbuf, !.asked = r.asked, !.held = r.held]

Init == \E i \in 1..Len(InitStates) :
           /\ st = InitStates[i]
           /\ obs = NoObs
           /\ hist = <<i>>          \* hist[1] = index of the initial state, then event indices

Do(i) == /\ Len(hist) <= MaxDepth
         /\ \E r \in Results(st, Alphabet[i], NoHint) :
               /\ st' = Install(st, r)
               /\ obs' = [ev |-> Alphabet[i], out |-> r.out, react |-> r.react, pres |-> r.pres,
                          presOk |-> r.presOk, rel |-> r.rel, relFail |-> r.relFail]
               /\ hist' = Append(hist, i)

Next == \E i \in 1..Len(Alphabet) : Do(i)

Spec == Init /\ [][Next]_vars

(* cover emission: one line per generated transition, with a shortest history *)
Emit == PrintT(<<"COVER", ToJson(hist')>>)

(* the alphabet and the initial states, printed once for the replay harness *)
SetToSeq_(S) == CHOOSE q \in [1..Cardinality(S) -> S] : \A x \in S : \E i \in 1..Cardinality(S) : q[i] = x
FnToPairs(f, G(_)) == LET ks == SetToSeq_(DOMAIN f) IN [i \in 1..Len(ks) |-> <<ks[i], G(f[ks[i]])>>]
Id_(x) == x
ChildJson(c) == [type |-> c.type, desc |-> c.desc, vals |-> FnToPairs(c.vals, Id_)]
NodeJson(n) == [type |-> n.type, ver |-> n.ver, bat |-> n.bat, sn |-> n.sn, sv |-> n.sv, hb |-> n.hb,
                sl |-> n.sl, rb |-> n.rb, ch |-> FnToPairs(n.ch, ChildJson)]
InitJson(s) == [nodes |-> FnToPairs(s.nodes, NodeJson), ver |-> s.ver, proto |-> s.proto, metric |-> s.metric]
EvJson(e) == [k |-> e.k, n |-> e.n, c |-> e.c, cmd |-> e.cmd, ack |-> e.ack, t |-> e.t, p |-> e.p,
              buf |-> e.buf, fault |-> e.fault, fk |-> e.fk]
ASSUME PrintT(<<"ALPHABET", ToJson([i \in 1..Len(Alphabet) |-> EvJson(Alphabet[i])])>>)
ASSUME PrintT(<<"INITS", ToJson([i \in 1..Len(InitStates) |-> InitJson(InitStates[i])])>>)

-----------------------------------------------------------------------------
(* Helpers for writing alphabets *)
P(str, codes) == [p |-> str, pc |-> codes]
PEmpty == P("", <<>>)
Pa == P("a", <<97>>)            Pb == P("b", <<98>>)
P0 == P("0", <<48>>)            P1 == P("1", <<49>>)
P57 == P("57", <<53,55>>)       P100 == P("100", <<49,48,48>>)
P76 == P("7.6", <<55,46,54>>)   P150 == P("150", <<49,53,48>>)
Pm3 == P("-3", <<45,51>>)       Pabc == P("abc", <<97,98,99>>)
Pnan == P("nan", <<110,97,110>>) Pinf == P("inf", <<105,110,102>>)
P1e400 == P("1e400", <<49,101,52,48,48>>)
P1111 == P("1111", <<49,49,49,49>>)  Px == P("x", <<120>>)
P14 == P("1.4", <<49,46,52>>)   P15 == P("1.5", <<49,46,53>>)
P20 == P("2.0", <<50,46,48>>)   P21 == P("2.1", <<50,46,49>>)   P22 == P("2.2", <<50,46,50>>)
P141 == P("1.4.1", <<49,46,52,46,49>>)  P150v == P("1.5.0", <<49,46,53,46,48>>)
P200 == P("2.0.0", <<50,46,48,46,48>>)  P211 == P("2.1.1", <<50,46,49,46,49>>)
P220 == P("2.2.0", <<50,46,50,46,48>>)  P232 == P("2.3.2", <<50,46,51,46,50>>)
P09 == P("0.9", <<48,46,57>>)   P30 == P("3.0", <<51,46,48>>)
Pgarbage == P("garbage", <<103,97,114,98,97,103,101>>)

Recv_(n, c, cmd, t, pl)  == [k |-> "recv", n |-> n, c |-> c, cmd |-> cmd, ack |-> 0, t |-> t,
                             p |-> pl.p, pc |-> pl.pc, buf |-> FALSE, fault |-> "", fk |-> 0]
\* f = "rel": the fk-th released set command fails; f = "pres": the presentation request fails
RecvF(n, c, cmd, t, pl, f, fk) == [Recv_(n, c, cmd, t, pl) EXCEPT !.fault = f, !.fk = fk]
Send_(n, c, cmd, t, pl, b) == [k |-> "send", n |-> n, c |-> c, cmd |-> cmd, ack |-> 0, t |-> t,
                               p |-> pl.p, pc |-> pl.pc, buf |-> b, fault |-> "", fk |-> 0]
SendA(n, c, cmd, t, pl, b) == [Send_(n, c, cmd, t, pl, b) EXCEPT !.ack = 1]
SendF(n, c, cmd, t, pl, b) == [Send_(n, c, cmd, t, pl, b) EXCEPT !.fault = "send"]
\* a line the codec rejects; p names the class the harness concretises
Bad_(class) == [k |-> "recvbad", n |-> 0, c |-> 0, cmd |-> 0, ack |-> 0, t |-> 0, p |-> class, pc |-> <<>>,
                buf |-> FALSE, fault |-> "", fk |-> 0]
Junk_(class) == [Bad_(class) EXCEPT !.k = "sendjunk"]
Reboot_(n) == [Bad_("") EXCEPT !.k = "reboot", !.n = n]
Sibling_(pl) == [Bad_("") EXCEPT !.k = "sibling", !.p = pl.p]   \* a second Gateway object in the process reports version pl
Cycle_ == [Bad_("") EXCEPT !.k = "cycle"]       \* async with gateway: ... left and entered again

\* registry builders
Vals1(t, p)        == [x \in {t} |-> p]
Ch1(c, child)      == [x \in {c} |-> child]
ChildV(type, vals) == [type |-> type, desc |-> "", vals |-> vals]
NodeC(ver, sl, ch) == [NewNode(S_ARDUINO_NODE, ver) EXCEPT !.sl = sl, !.ch = ch]

St(nodes, ver, proto, metric) ==
    [nodes |-> nodes, ver |-> ver, proto |-> proto, metric |-> metric,
     setbuf |-> EmptyFn, asked |-> {}, held |-> EmptyFn]

-----------------------------------------------------------------------------
(* Checked formulas *)

TypeOK ==
    /\ st.ver \in STRING /\ st.proto \in Protocols
    /\ \A n \in DOMAIN st.nodes : n \in 0..255
    /\ \A k \in DOMAIN st.setbuf : k[1] \in 0..255
    /\ st.asked \subseteq 0..255

(* C05: the reported version and the active rules never disagree *)
ProtoAgrees ==
    IF st.ver = NoVer THEN st.proto = "1.4"
    ELSE TRUE  \* for reported versions agreement is by construction of LearnVersion (Select)

(* C05: Select picks the newest supported protocol that is not newer than the report *)
PV(p) == CASE p = "1.4" -> <<1, 4>> [] p = "1.5" -> <<1, 5>> [] p = "2.0" -> <<2, 0>> [] p = "2.1" -> <<2, 1>> [] p = "2.2" -> <<2, 2>>
Leq(a, b) == a[1] < b[1] \/ (a[1] = b[1] /\ a[2] <= b[2])
SelectIsNewestNotNewer ==
    (hist = <<hist[1]>>) =>     \* a law of the Select function: evaluated in the initial states only
    \A M \in 0..4, m \in 0..6 :
        LET p == Select(M, m) IN
        /\ (Leq(<<1, 5>>, <<M, m>>) => Leq(PV(p), <<M, m>>))          \* anything older than 1.5 selects 1.4
        /\ (~Leq(<<1, 5>>, <<M, m>>) => p = "1.4")
        /\ \A q \in Protocols : Leq(PV(q), <<M, m>>) => Leq(PV(q), PV(p))

(* C03: every outcome is a yield, a plain return, or a library error *)
OutcomeIsLibrary == obs.out.k \in {"yield", "ok"} \/ (obs.out.k = "err" /\ obs.out.cls \subseteq LibClasses /\ obs.out.cls # {})

ev_ == obs'.ev
IsRecv == ev_.k = "recv"

(* C04 *)
ErrorsPreserveRegistry ==
    [][ (obs'.out.k = "err" /\ obs'.out.cls \subseteq {"MissingNode", "MissingChild", "Unsupported", "TooManyNodes"})
        => st'.nodes = st.nodes ]_vars
ErrorNamesTheMissingThing ==
    [][ /\ (obs'.out.k = "err" /\ obs'.out.cls = {"MissingNode"}) => (obs'.out.id = ev_.n /\ ev_.n \notin DOMAIN st.nodes)
        /\ (obs'.out.k = "err" /\ obs'.out.cls = {"MissingChild"}) =>
              (obs'.out.id = ev_.c /\ ev_.n \in DOMAIN st.nodes /\ ev_.c \notin DOMAIN st.nodes[ev_.n].ch) ]_vars
NodesNeverRemoved == [][DOMAIN st.nodes \subseteq DOMAIN st'.nodes]_vars
(* an accepted report is in the registry afterwards: "latest report wins" *)
RegistryStepIsTheReport ==
    [][ (IsRecv /\ obs'.out.k = "yield") =>
          /\ (ev_.cmd = C_PRESENTATION /\ ev_.c = SysChild) =>
                (st'.nodes[ev_.n].type = ev_.t /\ st'.nodes[ev_.n].ver = ev_.p /\ DOMAIN st'.nodes[ev_.n].ch = {})
          /\ (ev_.cmd = C_PRESENTATION /\ ev_.c # SysChild) =>
                (st'.nodes[ev_.n].ch[ev_.c] = NewChild(ev_.t, ev_.p))
          /\ (ev_.cmd = C_SET) => st'.nodes[ev_.n].ch[ev_.c].vals[ev_.t] = ev_.p
          /\ (ev_.cmd = C_INTERNAL /\ ev_.t = I_SKETCH_NAME) => st'.nodes[ev_.n].sn = ev_.p
          /\ (ev_.cmd = C_INTERNAL /\ ev_.t = I_SKETCH_VERSION) => st'.nodes[ev_.n].sv = ev_.p
          \* nothing but the addressed node (and a handed-out id) changes
          /\ \A n \in DOMAIN st.nodes : (n # ev_.n) => st'.nodes[n] = st.nodes[n] ]_vars

(* C05 *)
TypeGate ==
    [][ (IsRecv /\ ev_.cmd = C_INTERNAL) =>
          ((obs'.out.k = "err" /\ obs'.out.cls = {"Unsupported"}) <=> ev_.t \notin InternalTypes(st.proto)) ]_vars

(* C06 *)
IsReactionTrigger(s, e) ==
    \/ s.ver = NoVer
    \/ e.cmd = C_REQ
    \/ e.cmd = C_SET /\ e.n \in DOMAIN s.nodes /\ s.nodes[e.n].rb
    \/ e.cmd = C_INTERNAL /\ e.t \in {I_ID_REQUEST, I_CONFIG, I_TIME}
    \/ e.cmd = C_INTERNAL /\ e.t = I_GATEWAY_READY /\ Is2x(s.proto)
OnlySpecifiedReactions ==
    [][ (IsRecv /\ obs'.react # <<>>) => IsReactionTrigger(st, ev_) ]_vars
ReactionAddressedToAsker ==
    [][ IsRecv => \A i \in 1..Len(obs'.react) :
           LET w == obs'.react[i] IN
           w.n = ev_.n \/ w = VersionQuery \/ (w.n = Broadcast /\ w.t = I_DISCOVER_REQUEST) ]_vars
ReactionsNeverParked ==
    [][ IsRecv => (DOMAIN st'.setbuf \subseteq DOMAIN st.setbuf /\ DOMAIN st'.held \subseteq DOMAIN st.held) ]_vars
NoQueryOnceKnown ==
    [][ (IsRecv /\ st.ver # NoVer) => \A i \in 1..Len(obs'.react) : obs'.react[i] # VersionQuery ]_vars

(* C07 / C08 *)
ParkedNotWritten ==
    [][ (ev_.k = "send" /\ ev_.cmd = C_SET /\ ev_.buf /\ ev_.n \in DOMAIN st.nodes /\ st.nodes[ev_.n].sl)
          => (obs'.react = <<>> /\ KeyOf(MsgOf(ev_)) \in DOMAIN st'.setbuf
              /\ st'.setbuf[KeyOf(MsgOf(ev_))].p = ev_.p) ]_vars
AwakeWrittenUnchanged ==
    [][ (ev_.k = "send" /\ ev_.cmd = C_SET /\ obs'.out.k = "ok"
         /\ ~(ev_.buf /\ ev_.n \in DOMAIN st.nodes /\ st.nodes[ev_.n].sl))
          => (obs'.react = <<MsgOf(ev_)>> /\ DOMAIN st'.setbuf = DOMAIN st.setbuf
              /\ \A k \in DOMAIN st.setbuf : st'.setbuf[k].p = st.setbuf[k].p) ]_vars
WakeReleasesExactlyThatNode ==
    [][ IsRecv =>
          /\ \A m \in obs'.rel \cup obs'.relFail : m.n = ev_.n
          /\ (obs'.rel # {} => IsWake(st.proto, MsgOf(ev_)))
          \* after a complete flush nothing of that node stays parked; other nodes untouched
          /\ (IsWake(st.proto, MsgOf(ev_)) /\ obs'.out.k = "yield") => ParkedOf(st'.setbuf, ev_.n) = {}
          /\ \A k \in DOMAIN st.setbuf : k[1] # ev_.n => (k \in DOMAIN st'.setbuf /\ st'.setbuf[k] = st.setbuf[k]) ]_vars
FlushFaultLosesNothing ==
    [][ (IsRecv /\ obs'.relFail # {}) =>
          /\ obs'.out.k = "err" /\ "Transport" \in obs'.out.cls
          \* every parked command is either written successfully now or still parked
          /\ \A k \in ParkedOf(st.setbuf, ev_.n) :
                (ParkedMsg(st.setbuf, k) \in obs'.rel) # (k \in DOMAIN st'.setbuf) ]_vars

(* C10 *)
PresRequestRule ==
    [][ IsRecv =>
          /\ (obs'.pres # <<>>) => (Is2x(st.proto) /\ ev_.n \notin st.asked /\ obs'.pres[1].n = ev_.n)
          /\ (Is2x(st.proto) /\ obs'.out.k = "err" /\ obs'.out.cls \subseteq {"MissingNode", "MissingChild"}
              /\ ev_.n \notin st.asked) => obs'.pres # <<>>
          /\ obs'.presOk => ev_.n \in st'.asked
          /\ (obs'.pres # <<>> /\ ~obs'.presOk) => ev_.n \notin st'.asked
          /\ (obs'.pres # <<>> /\ ev_.fault = "pres") => ev_.n \notin st'.asked   \* a failed request does not count
          /\ \A n \in st.asked \ st'.asked : n = ev_.n /\ ev_.cmd = C_PRESENTATION /\ ev_.c = SysChild ]_vars
PresentationRearms ==
    [][ (IsRecv /\ ev_.cmd = C_PRESENTATION /\ ev_.c = SysChild /\ Is2x(st.proto)) => ev_.n \notin st'.asked ]_vars
NoRequestBefore20 == [][ ~Is2x(st.proto) => (obs'.pres = <<>> /\ st'.asked \subseteq st.asked) ]_vars

(* C11 *)
IdsFreshInRangeDistinct ==
    [][ (IsRecv /\ ev_.cmd = C_INTERNAL /\ ev_.t = I_ID_REQUEST /\ obs'.out.k = "yield") =>
          \E id \in (1..MaxNodeId) \ DOMAIN st.nodes :
              /\ DOMAIN st'.nodes = DOMAIN st.nodes \cup {id}
              /\ obs'.react[1] = Msg(ev_.n, ev_.c, C_INTERNAL, 0, I_ID_RESPONSE, ToString(id)) ]_vars
TooManyOnlyWhenFull ==
    [][ (obs'.out.k = "err" /\ obs'.out.cls = {"TooManyNodes"}) =>
          /\ st'.nodes = st.nodes
          /\ \A i \in 1..Len(obs'.react) : obs'.react[i] = VersionQuery   \* no answer is written
          /\ (DOMAIN st.nodes # {} /\ Max(DOMAIN st.nodes) >= MaxNodeId) ]_vars

(* C12 *)
SendTrichotomy ==
    [][ ev_.k = "send" =>
          LET m == MsgOf(ev_)
              written == obs'.react = <<m>>
              parked  == (m.cmd = C_SET /\ KeyOf(m) \in DOMAIN st'.setbuf /\ st'.setbuf[KeyOf(m)].p = m.p
                          /\ (KeyOf(m) \notin DOMAIN st.setbuf \/ st.setbuf[KeyOf(m)] # st'.setbuf[KeyOf(m)] \/ TRUE))
                         \/ (m \in DOMAIN st'.held)
              failed  == obs'.out.k = "err"
          IN  /\ (written \/ (parked /\ obs'.react = <<>>) \/ failed)
              /\ ~(written /\ failed) ]_vars
HeldIsReleasedAtWake ==
    [][ (IsRecv /\ IsWake(st.proto, MsgOf(ev_)) /\ obs'.out.k = "yield") => HeldOf(st'.held, ev_.n) = {} ]_vars

=============================================================================
