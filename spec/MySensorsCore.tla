--------------------------- MODULE MySensorsCore ---------------------------
(***************************************************************************)
(* Reference semantics of the aiomysensors controller core, written as     *)
(* pure operators over an explicit state record so that the same           *)
(* definitions serve                                                       *)
(*   - the model-checked specification  (MySensors.tla:  Init / Next over  *)
(*     a bounded alphabet, invariants, action properties, cover emission), *)
(*   - trace validation                 (MySensorsTrace.tla: executions    *)
(*     recorded from the real code are matched against these operators).   *)
(*                                                                         *)
(* One operator per handler of the implementation, with the same names:    *)
(* Presentation, SetMsg, ReqMsg, Internal (I_BATTERY_LEVEL, I_TIME,        *)
(* I_VERSION, I_ID_REQUEST, I_CONFIG, I_SKETCH_*, I_GATEWAY_READY,         *)
(* I_DISCOVER_RESPONSE, I_HEARTBEAT_RESPONSE, I_PRE_SLEEP_NOTIFICATION),   *)
(* Stream, the two wrappers (presentation request on a missing node/child, *)
(* version query while the version is unknown), the sleep-buffer flush and *)
(* Send.  Where the properties leave freedom the freedom is an explicit    *)
(* choice parameter `ch` (DESIGN.md 5.3); Choices(s, ev, hint) is the set  *)
(* of choices the properties allow.                                        *)
(*                                                                         *)
(* The protocol tables below are transcribed from the MySensors serial API *)
(* documentation of each release (1.4, 1.5, 2.0, 2.1, 2.2), not from the   *)
(* Python enums.                                                           *)
(***************************************************************************)
EXTENDS Integers, Sequences, FiniteSets, TLC

CONSTANT MaxNodeId      \* 254 for the real system, small for exhaustive runs

Broadcast  == 255
SysChild   == 255
NoVer      == "none"

Protocols  == {"1.4", "1.5", "2.0", "2.1", "2.2"}
Is2x(p)    == p \in {"2.0", "2.1", "2.2"}

(* highest internal message type number that exists in each protocol *)
InternalMax(p) == CASE p = "1.4" -> 14   \* ... I_GATEWAY_READY
                    [] p = "1.5" -> 17   \* + signing: request signing, get nonce, nonce response
                    [] p = "2.0" -> 28   \* + heartbeat, presentation, discover, ..., I_DEBUG
                    [] p = "2.1" -> 28
                    [] p = "2.2" -> 33   \* + signal report x3, pre/post sleep notification
StreamMax == 5                           \* firmware config req/resp, firmware req/resp, sound, image

InternalTypes(p) == 0 .. InternalMax(p)
StreamTypes      == 0 .. StreamMax

I_BATTERY_LEVEL == 0    I_TIME == 1             I_VERSION == 2        I_ID_REQUEST == 3
I_ID_RESPONSE == 4      I_CONFIG == 6           I_LOG_MESSAGE == 9    I_SKETCH_NAME == 11
I_SKETCH_VERSION == 12  I_REBOOT == 13          I_GATEWAY_READY == 14 I_PRESENTATION == 19
I_DISCOVER_REQUEST == 20  I_DISCOVER_RESPONSE == 21  I_HEARTBEAT_RESPONSE == 22
I_PRE_SLEEP_NOTIFICATION == 32
S_ARDUINO_NODE == 17

C_PRESENTATION == 0  C_SET == 1  C_REQ == 2  C_INTERNAL == 3  C_STREAM == 4

(* which message announces "I am awake" *)
IsWake(p, m) == /\ m.cmd = C_INTERNAL
                /\ \/ p \in {"2.0", "2.1"} /\ m.t = I_HEARTBEAT_RESPONSE
                   \/ p = "2.2" /\ m.t = I_PRE_SLEEP_NOTIFICATION

(* newest supported protocol whose major.minor does not exceed the report *)
Select(major, minor) ==
    IF major > 2 \/ (major = 2 /\ minor >= 2) THEN "2.2"
    ELSE IF major = 2 /\ minor = 1 THEN "2.1"
    ELSE IF major = 2 THEN "2.0"
    ELSE IF major = 1 /\ minor >= 5 THEN "1.5"
    ELSE "1.4"

-----------------------------------------------------------------------------
(* Payload parsing over code points (payloads are logged both as an opaque  *)
(* string p and as the sequence pc of their code points).                   *)

IsDigit(c)  == c >= 48 /\ c <= 57
AllDigits(q) == Len(q) > 0 /\ \A i \in 1..Len(q) : IsDigit(q[i])
HasDigit(q)  == \E i \in 1..Len(q) : IsDigit(q[i])
RECURSIVE DecVal(_)
DecVal(q) == IF Len(q) = 0 THEN 0 ELSE DecVal(SubSeq(q, 1, Len(q)-1)) * 10 + (q[Len(q)] - 48)

Positions(q, c) == {i \in 1..Len(q) : q[i] = c}

RECURSIVE SplitAt(_, _)
SplitAt(q, c) == IF \A i \in 1..Len(q) : q[i] # c THEN <<q>>
                 ELSE LET i == CHOOSE i \in 1..Len(q) : q[i] = c /\ \A j \in 1..(i-1) : q[j] # c
                      IN  <<SubSeq(q, 1, i-1)>> \o SplitAt(SubSeq(q, i+1, Len(q)), c)

(* Version: d+ . d+ [ . d+ [ . d+ ]]  with short components -> major, minor *)
ParseVersion(q) ==
    LET comps == SplitAt(q, 46) IN
    IF ~HasDigit(q) THEN [cls |-> "garbage"]
    ELSE IF Len(comps) \in 2..4 /\ \A i \in 1..Len(comps) : AllDigits(comps[i]) /\ Len(comps[i]) <= 5
         THEN [cls |-> "plain", major |-> DecVal(comps[1]), minor |-> DecVal(comps[2])]
    ELSE [cls |-> "gray"]

(* Decimal number  -?d+(.d+)?  rounded to the nearest integer: lo..hi is the set *)
(* of acceptable results (both neighbours on an exact tie).                      *)
ParseRound(q) ==
    LET neg  == Len(q) > 0 /\ q[1] = 45
        body == IF neg THEN SubSeq(q, 2, Len(q)) ELSE q
        dots == Positions(body, 46)
        dp   == IF dots = {} THEN Len(body) + 1 ELSE CHOOSE i \in dots : TRUE
        ip   == SubSeq(body, 1, dp - 1)
        fp   == SubSeq(body, dp + 1, Len(body))
        okForm == /\ Cardinality(dots) <= 1 /\ AllDigits(ip) /\ Len(ip) <= 6
                  /\ (dots = {} \/ (AllDigits(fp) /\ Len(fp) <= 6))
        iv   == DecVal(ip)
        RECURSIVE AllZero(_)
        AllZero(z) == Len(z) = 0 \/ (z[1] = 48 /\ AllZero(Tail(z)))
        up   == Len(fp) > 0 /\ fp[1] >= 53                      \* first fraction digit >= 5
        tie  == Len(fp) > 0 /\ fp[1] = 53 /\ AllZero(Tail(fp))
        lo0  == IF up /\ ~tie THEN iv + 1 ELSE iv
        hi0  == IF up THEN iv + 1 ELSE iv
    IN  IF ~HasDigit(q) THEN [cls |-> "garbage"]
        ELSE IF okForm THEN [cls |-> "plain", lo |-> IF neg THEN 0 - hi0 ELSE lo0, hi |-> IF neg THEN 0 - lo0 ELSE hi0]
        ELSE [cls |-> "gray"]

(* Integer  -?d+  *)
ParseInt(q) ==
    LET neg  == Len(q) > 0 /\ q[1] = 45
        body == IF neg THEN SubSeq(q, 2, Len(q)) ELSE q
    IN  IF ~HasDigit(q) THEN [cls |-> "garbage"]
        ELSE IF AllDigits(body) /\ Len(body) <= 9 THEN [cls |-> "plain", v |-> IF neg THEN 0 - DecVal(body) ELSE DecVal(body)]
        ELSE [cls |-> "gray"]

-----------------------------------------------------------------------------
(* Registry values *)

Upd(f, k, v) == [x \in (DOMAIN f) \cup {k} |-> IF x = k THEN v ELSE f[x]]
Without(f, ks) == [x \in (DOMAIN f) \ ks |-> f[x]]
EmptyFn == [x \in {} |-> 0]

NewNode(type, ver) == [type |-> type, ver |-> ver, bat |-> 0, sn |-> "", sv |-> "", hb |-> 0,
                       sl |-> FALSE, rb |-> FALSE, ch |-> EmptyFn]
NewChild(type, desc) == [type |-> type, desc |-> desc, vals |-> EmptyFn]
Placeholder == NewNode(S_ARDUINO_NODE, "1.4")

Msg(n, c, cmd, ack, t, p) == [n |-> n, c |-> c, cmd |-> cmd, ack |-> ack, t |-> t, p |-> p]
NoMsg == Msg(-1, -1, -1, -1, -1, "")
MsgOf(ev) == Msg(ev.n, ev.c, ev.cmd, ev.ack, ev.t, ev.p)

(* outcomes *)
LibClasses == {"MissingNode", "MissingChild", "TooManyNodes", "InvalidMessage", "Unsupported",
               "Transport", "Persistence", "LibOther"}
Yield(m)        == [k |-> "yield", cls |-> {}, id |-> -1, m |-> m]
Err(classes, id) == [k |-> "err", cls |-> classes, id |-> id, m |-> NoMsg]
Done            == [k |-> "ok", cls |-> {}, id |-> -1, m |-> NoMsg]
IsMissing(o)    == o.k = "err" /\ o.cls \subseteq {"MissingNode", "MissingChild"} /\ o.cls # {}

(* the controller state the reference carries *)
\*  nodes  : node id -> node record            (public)
\*  ver    : NoVer or the reported version     (public)
\*  proto  : active protocol                   (public)
\*  metric : configuration                     (public, constant per run)
\*  setbuf : <<n, c, t>> -> [ack, p]  parked set commands        (hidden)
\*  asked  : set of node ids with an outstanding presentation request (hidden)
\*  held   : message -> number of copies held for a sleeping destination (a bag; hidden; C12 option)

KeyOf(m) == <<m.n, m.c, m.t>>
ParkedOf(setbuf, n) == {k \in DOMAIN setbuf : k[1] = n}
ParkedMsg(setbuf, k) == Msg(k[1], k[2], C_SET, setbuf[k].ack, k[3], setbuf[k].p)
HeldOf(held, n) == {m \in DOMAIN held : m.n = n}

Max(S) == CHOOSE x \in S : \A y \in S : y <= x
FreeIds(nodes) == (1 .. MaxNodeId) \ DOMAIN nodes

-----------------------------------------------------------------------------
(* Handler cores.  Each returns                                             *)
(*   [nodes, ver, proto, out, react, wake, asked]                           *)
(* react = the specified reaction writes, in order; wake = flush follows.   *)

Res(s, nodes, out, react) ==
    [nodes |-> nodes, ver |-> s.ver, proto |-> s.proto, out |-> out, react |-> react,
     wake |-> FALSE, asked |-> s.asked]

Fail(s, classes, id) == Res(s, s.nodes, Err(classes, id), <<>>)

(* gateway.protocol_version = payload  (version reply, gateway presentation) *)
LearnVersion(s, r, m, pc, ch) ==
    LET pv == ParseVersion(pc) IN
    CASE pv.cls = "plain" ->
            [r EXCEPT !.ver = m.p, !.proto = Select(pv.major, pv.minor)]
      [] pv.cls = "garbage" ->
            \* rejected: version and rules unchanged (the registry may or may not keep
            \* what the same message presented); or accepted as the oldest protocol
            IF ch.alt = "accept14" THEN [r EXCEPT !.ver = m.p, !.proto = "1.4"]
            ELSE IF ch.alt = "rejectKeep" THEN [r EXCEPT !.out = Err(LibClasses, -1)]
            ELSE [r EXCEPT !.out = Err(LibClasses, -1), !.nodes = s.nodes]
      [] OTHER -> \* gray spelling: not determined; anything consistent
            IF ch.alt = "reject" THEN [r EXCEPT !.out = Err(LibClasses, -1), !.nodes = s.nodes]
            ELSE IF ch.alt = "rejectKeep" THEN [r EXCEPT !.out = Err(LibClasses, -1)]
            ELSE [r EXCEPT !.ver = m.p, !.proto = ch.proto]

Presentation(s, m, pc, ch) ==
    IF m.c = SysChild THEN
        \* the node has presented itself: its request episode is over.  (Under a 1.x protocol
        \* no request is ever outstanding unless the protocol was switched mid-run; C10 does not
        \* say what a 1.x presentation does to an episode opened under 2.x: ch.keep leaves it open.)
        LET r0 == [Res(s, Upd(s.nodes, m.n, NewNode(m.t, m.p)), Yield(m), <<>>)
                      EXCEPT !.asked = IF ch.keep /\ ~Is2x(s.proto) THEN s.asked ELSE s.asked \ {m.n}]
        IN  IF m.n = 0 THEN LearnVersion(s, r0, m, pc, ch) ELSE r0
    ELSE IF m.n \notin DOMAIN s.nodes THEN Fail(s, {"MissingNode"}, m.n)
    ELSE Res(s, [s.nodes EXCEPT ![m.n].ch = Upd(@, m.c, NewChild(m.t, m.p))], Yield(m), <<>>)

SetMsg(s, m) ==
    IF m.n \notin DOMAIN s.nodes THEN Fail(s, {"MissingNode"}, m.n)
    ELSE IF m.c \notin DOMAIN s.nodes[m.n].ch THEN Fail(s, {"MissingChild"}, m.c)
    ELSE Res(s, [s.nodes EXCEPT ![m.n].ch[m.c].vals = Upd(@, m.t, m.p)], Yield(m),
             IF s.nodes[m.n].rb THEN <<Msg(m.n, SysChild, C_INTERNAL, 0, I_REBOOT, "")>> ELSE <<>>)

ReqMsg(s, m) ==
    IF m.n \notin DOMAIN s.nodes THEN Fail(s, {"MissingNode"}, m.n)
    ELSE IF m.c \notin DOMAIN s.nodes[m.n].ch THEN Fail(s, {"MissingChild"}, m.c)
    ELSE LET vals == s.nodes[m.n].ch[m.c].vals IN
         Res(s, s.nodes, Yield(m),
             IF m.t \in DOMAIN vals THEN <<Msg(m.n, m.c, C_SET, 0, m.t, vals[m.t])>> ELSE <<>>)

(* ch.bat ranges over BatChoices: the acceptable roundings, or the observed value *)
(* for a spelling the reference does not interpret                                *)
Battery(s, m, pc, ch) ==
    IF m.n \notin DOMAIN s.nodes THEN Fail(s, {"MissingNode"}, m.n)
    ELSE LET pr == ParseRound(pc)
             record == Res(s, [s.nodes EXCEPT ![m.n].bat = ch.bat], Yield(m), <<>>)
         IN  CASE pr.cls = "garbage" -> Fail(s, LibClasses, -1)
               [] pr.cls = "gray" -> IF ch.alt = "reject" THEN Fail(s, LibClasses, -1) ELSE record
               [] OTHER -> \* a percentage is recorded; anything else is refused or recorded as is
                    IF ch.alt = "reject" /\ ~(pr.lo >= 0 /\ pr.hi <= 100) THEN Fail(s, LibClasses, -1)
                    ELSE record

BatChoices(ev, hint) ==
    LET pr == ParseRound(ev.pc) IN
    IF pr.cls = "plain" THEN pr.lo .. pr.hi ELSE IF hint.has THEN {hint.bat} ELSE {0}

IdRequest(s, m, ch) ==
    IF ch.id = 0 THEN Fail(s, {"TooManyNodes"}, -1)
    ELSE Res(s, Upd(s.nodes, ch.id, Placeholder), Yield(m),
             <<Msg(m.n, m.c, C_INTERNAL, 0, I_ID_RESPONSE, ToString(ch.id))>>)

Heartbeat(s, m, pc, ch) ==
    IF m.n \notin DOMAIN s.nodes THEN Fail(s, {"MissingNode"}, m.n)
    ELSE LET pi == ParseInt(pc)
             wakes == s.proto \in {"2.0", "2.1"}
             bad == [Fail(s, LibClasses, -1) EXCEPT
                        !.nodes = IF wakes /\ ch.alt = "rejectSleeping"
                                  THEN [s.nodes EXCEPT ![m.n].sl = TRUE] ELSE s.nodes]
         IN  CASE pi.cls = "garbage" -> bad
               [] pi.cls = "gray" /\ ch.alt \in {"reject", "rejectSleeping"} -> bad
               [] OTHER ->
                    LET v == IF pi.cls = "plain" THEN pi.v ELSE ch.hb IN
                    [Res(s, [s.nodes EXCEPT ![m.n].hb = v, ![m.n].sl = IF wakes THEN TRUE ELSE @],
                         Yield(m), <<>>) EXCEPT !.wake = wakes]

PreSleep(s, m) ==
    IF m.n \notin DOMAIN s.nodes THEN Fail(s, {"MissingNode"}, m.n)
    ELSE [Res(s, [s.nodes EXCEPT ![m.n].sl = TRUE], Yield(m), <<>>) EXCEPT !.wake = TRUE]

NodeAttr(s, m, field) ==
    IF m.n \notin DOMAIN s.nodes THEN Fail(s, {"MissingNode"}, m.n)
    ELSE Res(s, [s.nodes EXCEPT ![m.n] = IF field = "sn" THEN [@ EXCEPT !.sn = m.p] ELSE [@ EXCEPT !.sv = m.p]],
             Yield(m), <<>>)

Internal(s, m, pc, ch) ==
    IF m.t \notin InternalTypes(s.proto) THEN Fail(s, {"Unsupported"}, -1)
    ELSE CASE m.t = I_BATTERY_LEVEL -> Battery(s, m, pc, ch)
           [] m.t = I_TIME    -> Res(s, s.nodes, Yield(m), <<Msg(m.n, m.c, C_INTERNAL, 0, I_TIME, "<TIME>")>>)
           [] m.t = I_VERSION -> LearnVersion(s, Res(s, s.nodes, Yield(m), <<>>), m, pc, ch)
           [] m.t = I_ID_REQUEST -> IdRequest(s, m, ch)
           [] m.t = I_CONFIG  -> Res(s, s.nodes, Yield(m),
                                     <<Msg(m.n, m.c, C_INTERNAL, 0, I_CONFIG, IF s.metric THEN "M" ELSE "I")>>)
           [] m.t = I_SKETCH_NAME    -> NodeAttr(s, m, "sn")
           [] m.t = I_SKETCH_VERSION -> NodeAttr(s, m, "sv")
           [] m.t = I_GATEWAY_READY /\ Is2x(s.proto) ->
                  Res(s, s.nodes, Yield(m), <<Msg(Broadcast, m.c, C_INTERNAL, 0, I_DISCOVER_REQUEST, "")>>)
           [] m.t = I_DISCOVER_RESPONSE ->
                  IF m.n \notin DOMAIN s.nodes THEN Fail(s, {"MissingNode"}, m.n)
                  ELSE Res(s, s.nodes, Yield(m), <<>>)
           [] m.t = I_HEARTBEAT_RESPONSE -> Heartbeat(s, m, pc, ch)
           [] m.t = I_PRE_SLEEP_NOTIFICATION -> PreSleep(s, m)
           [] OTHER -> Res(s, s.nodes, Yield(m), <<>>)

Stream(s, m, ch) ==
    LET noNode == m.n \notin DOMAIN s.nodes
        noType == m.t \notin StreamTypes
    IN  IF noNode /\ noType THEN (IF ch.alt = "unsupportedFirst" THEN Fail(s, {"Unsupported"}, -1)
                                  ELSE Fail(s, {"MissingNode"}, m.n))
        ELSE IF noNode THEN Fail(s, {"MissingNode"}, m.n)
        ELSE IF noType THEN Fail(s, {"Unsupported"}, -1)
        ELSE Res(s, s.nodes, Yield(m), <<>>)

Base(s, m, pc, ch) ==
    CASE m.cmd = C_PRESENTATION -> Presentation(s, m, pc, ch)
      [] m.cmd = C_SET          -> SetMsg(s, m)
      [] m.cmd = C_REQ          -> ReqMsg(s, m)
      [] m.cmd = C_INTERNAL     -> Internal(s, m, pc, ch)
      [] m.cmd = C_STREAM       -> Stream(s, m, ch)

-----------------------------------------------------------------------------
(* Full step results.                                                       *)
(*   [nodes, ver, proto, setbuf, asked, held, out,                          *)
(*    react : Seq(msg)  reaction writes in order (version query last),      *)
(*    pres  : Seq(msg)  presentation-request writes attempted (0 or 1),     *)
(*    presOk: BOOLEAN   that write succeeded,                               *)
(*    rel   : set of msgs released successfully at a wake (any order),      *)
(*    relFail : set of msgs whose release write was attempted and failed]   *)

IdValid(s, id) ==
    LET free == FreeIds(s.nodes) IN
    IF id = 0 THEN free = {} \/ (DOMAIN s.nodes # {} /\ Max(DOMAIN s.nodes) >= MaxNodeId)
    ELSE id \in free
FlushValid(s, n, f) ==
    LET parked == ParkedOf(s.setbuf, n)
        heldn  == HeldOf(s.held, n)
    IN  /\ f.rel \subseteq parked /\ f.relFail \subseteq parked /\ f.heldRel \subseteq heldn /\ f.heldFail \subseteq heldn
        /\ f.rel \cap f.relFail = {} /\ f.heldRel \cap f.heldFail = {}
        /\ Cardinality(f.relFail) + Cardinality(f.heldFail) <= 1
        \* without a fault everything parked for the node goes out (a superseded entry may have been dropped)
        /\ (f.relFail = {} /\ f.heldFail = {}) => ({k \in parked : ~s.setbuf[k].sup} \subseteq f.rel /\ f.heldRel = heldn)

VersionQuery == Msg(0, SysChild, C_INTERNAL, 0, I_VERSION, "")

NeedsQuery(m, ver) == ver = NoVer /\ ~(m.cmd = C_INTERNAL /\ m.t \in {I_LOG_MESSAGE, I_GATEWAY_READY})

(* ch.rel : keys released successfully, ch.relFail : key whose write failed (or {}) *)
(* ch.heldRel likewise for held messages, ch.presFail : the request write failed    *)
Recv(s, ev, ch) ==
    LET m   == MsgOf(ev)
        b   == Base(s, m, ev.pc, ch)
        q   == IF NeedsQuery(m, b.ver) THEN <<VersionQuery>> ELSE <<>>
        ask == Is2x(s.proto) /\ IsMissing(b.out) /\ m.n \notin b.asked
        presOk == ask /\ ~ch.presFail
        doFlush == b.wake /\ b.out.k = "yield"
        relFailed == doFlush /\ (ch.relFail # {} \/ ch.heldFail # {})
        out == IF ask /\ ch.presFail THEN Err({"Transport"} \cup b.out.cls, b.out.id)
               ELSE IF relFailed THEN Err({"Transport"}, -1)
               ELSE b.out
    IN  [nodes  |-> b.nodes, ver |-> b.ver, proto |-> b.proto,
         setbuf |-> IF doFlush
                    THEN Without(s.setbuf, ch.rel \cup (IF relFailed THEN {} ELSE {k \in ParkedOf(s.setbuf, m.n) : s.setbuf[k].sup}))
                    ELSE s.setbuf,
         held   |-> IF doFlush THEN Without(s.held, ch.heldRel) ELSE s.held,
         asked  |-> IF presOk THEN b.asked \cup {m.n} ELSE b.asked,
         out    |-> out,
         react  |-> b.react \o q,
         pres   |-> IF ask THEN <<Msg(m.n, SysChild, C_INTERNAL, 0, I_PRESENTATION, "")>> ELSE <<>>,
         presOk |-> presOk,
         rel    |-> IF doFlush THEN {ParkedMsg(s.setbuf, k) : k \in ch.rel} \cup ch.heldRel ELSE {},
         relFail |-> IF doFlush THEN {ParkedMsg(s.setbuf, k) : k \in ch.relFail} \cup ch.heldFail ELSE {},
         relCount |-> IF doFlush THEN [hm \in ch.heldRel |-> s.held[hm]] ELSE EmptyFn,   \* copies of each held message released
         viol   |-> (IF doFlush /\ ~FlushValid(s, m.n, ch) THEN {"flush"} ELSE {})
                    \cup (IF m.cmd = C_INTERNAL /\ m.t = I_ID_REQUEST /\ m.t \in InternalTypes(s.proto)
                             /\ ~IdValid(s, ch.id) THEN {"id"} ELSE {})]

Quiet(s, out) ==
    [nodes |-> s.nodes, ver |-> s.ver, proto |-> s.proto, setbuf |-> s.setbuf, held |-> s.held,
     asked |-> s.asked, out |-> out, react |-> <<>>, pres |-> <<>>, presOk |-> FALSE,
     rel |-> {}, relFail |-> {}, relCount |-> EmptyFn, viol |-> {}]

(* a line the codec rejects: invalid message, nothing else happens *)
RecvBad(s) == Quiet(s, Err({"InvalidMessage"}, -1))
(* bytes that are not UTF-8 arrive on a stream transport: a transport error, nothing else happens *)
RecvUndecodable(s) == Quiet(s, Err({"Transport"}, -1))

(* Gateway.send(message, message_buffer = ev.buf) for a message the codec accepts *)
Send(s, ev, ch) ==
    LET m == MsgOf(ev)
        sleeping == m.n \in DOMAIN s.nodes /\ s.nodes[m.n].sl
    IN  IF m.cmd = C_SET THEN
            IF ev.buf /\ sleeping
            THEN [Quiet(s, Done) EXCEPT !.setbuf = Upd(s.setbuf, KeyOf(m), [ack |-> m.ack, p |-> m.p, sup |-> FALSE])]
            ELSE IF ch.sendFail THEN Quiet(s, Err({"Transport"}, -1))
            \* written at once.  A command still parked for the same key (the node presented itself again,
            \* or buffering was switched off for this call) is superseded: whether it is still released at
            \* the next wake or dropped is not determined by C07 - both are allowed.
            ELSE [Quiet(s, Done) EXCEPT !.react = <<m>>,
                                        !.setbuf = IF KeyOf(m) \in DOMAIN s.setbuf
                                                   THEN [s.setbuf EXCEPT ![KeyOf(m)].sup = TRUE] ELSE s.setbuf]
        ELSE  \* other commands: written now | held for a sleeping destination | library error
            IF ch.alt = "hold" /\ ev.buf /\ sleeping THEN [Quiet(s, Done) EXCEPT !.held = Upd(s.held, m, (IF m \in DOMAIN s.held THEN s.held[m] ELSE 0) + 1)]
            ELSE IF ch.alt = "error" \/ ch.sendFail THEN Quiet(s, Err(LibClasses, -1))
            ELSE [Quiet(s, Done) EXCEPT !.react = <<m>>]

SendJunk(s) == Quiet(s, Err({"InvalidMessage"}, -1))

SetReboot(s, n) ==
    [Quiet(s, Done) EXCEPT !.nodes = IF n \in DOMAIN s.nodes THEN [s.nodes EXCEPT ![n].rb = TRUE] ELSE s.nodes]

-----------------------------------------------------------------------------
(* The choices the properties leave open, for event ev in state s.          *)
(* hint.has = FALSE : all of them (model checking).                         *)
(* hint.has = TRUE  : those compatible with what was observed (trace        *)
(* validation); hint = [id, bat, hb, proto, rel, relFail, presFail, sendFail] *)

NoHint == [has |-> FALSE, id |-> 0, bat |-> 0, hb |-> 0, proto |-> "1.4", rel |-> {}, relFail |-> {},
           presFail |-> FALSE, sendFail |-> FALSE]

BaseChoice == [alt |-> "", id |-> 0, bat |-> 0, hb |-> 0, proto |-> "1.4", rel |-> {}, relFail |-> {},
               heldRel |-> {}, heldFail |-> {}, presFail |-> FALSE, sendFail |-> FALSE, keep |-> FALSE]

IdChoices(s, hint) ==
    IF hint.has THEN {hint.id} ELSE {i \in 0..MaxNodeId : IdValid(s, i)}

(* subsets of the woken node's parked commands that were written successfully, *)
(* plus at most one whose write failed (the flush stops there)                 *)
FlushChoices(s, ev, hint, faultable) ==
    LET parked == ParkedOf(s.setbuf, ev.n)
        heldn  == HeldOf(s.held, ev.n)
    IN  IF hint.has
        THEN {[rel      |-> {k \in parked : ParkedMsg(s.setbuf, k) \in hint.rel},
               relFail  |-> {k \in parked : ParkedMsg(s.setbuf, k) \in hint.relFail /\ ParkedMsg(s.setbuf, k) \notin hint.rel},
               heldRel  |-> heldn \cap hint.rel,
               heldFail |-> (heldn \cap hint.relFail) \ hint.rel]}
        ELSE {[rel |-> parked, relFail |-> {}, heldRel |-> heldn, heldFail |-> {}],
              [rel |-> {k \in parked : ~s.setbuf[k].sup}, relFail |-> {}, heldRel |-> heldn, heldFail |-> {}]}
             \cup (IF faultable
                   THEN {[rel |-> c[1], relFail |-> {c[2]}, heldRel |-> {}, heldFail |-> {}] :
                           c \in {c \in (SUBSET parked) \X parked : c[2] \notin c[1]}}
                   ELSE {})

AltsFor(ev) ==
    IF ev.k = "send" THEN (IF ev.cmd = C_SET THEN {""} ELSE {"", "hold", "error"})
    ELSE IF ev.k # "recv" THEN {""}
    ELSE IF (ev.cmd = C_PRESENTATION /\ ev.n = 0 /\ ev.c = SysChild) \/ (ev.cmd = C_INTERNAL /\ ev.t = I_VERSION)
         THEN {"", "accept14", "reject", "rejectKeep"}
    ELSE IF ev.cmd = C_INTERNAL /\ ev.t = I_BATTERY_LEVEL THEN {"", "reject"}
    ELSE IF ev.cmd = C_INTERNAL /\ ev.t = I_HEARTBEAT_RESPONSE THEN {"", "reject", "rejectSleeping"}
    ELSE IF ev.cmd = C_STREAM THEN {"", "unsupportedFirst"}
    ELSE {""}

Choices(s, ev, hint) ==
    IF ev.k = "recv" THEN
        {[BaseChoice EXCEPT !.alt = a, !.id = i, !.bat = b,
                            !.hb = IF hint.has THEN hint.hb ELSE 0,
                            !.proto = IF hint.has THEN hint.proto ELSE "1.4",
                            !.rel = f.rel, !.relFail = f.relFail, !.heldRel = f.heldRel, !.heldFail = f.heldFail,
                            !.presFail = pf, !.keep = kp] :
            a \in AltsFor(ev),
            kp \in (IF ev.cmd = C_PRESENTATION /\ ev.c = SysChild /\ ~Is2x(s.proto) /\ ev.n \in s.asked
                    THEN {FALSE, TRUE} ELSE {FALSE}),
            i \in (IF ev.cmd = C_INTERNAL /\ ev.t = I_ID_REQUEST THEN IdChoices(s, hint) ELSE {0}),
            b \in (IF ev.cmd = C_INTERNAL /\ ev.t = I_BATTERY_LEVEL THEN BatChoices(ev, hint) ELSE {0}),
            f \in (IF IsWake(s.proto, MsgOf(ev)) THEN FlushChoices(s, ev, hint, ev.fault = "rel")
                   ELSE {[rel |-> {}, relFail |-> {}, heldRel |-> {}, heldFail |-> {}]}),
            pf \in (IF hint.has THEN {hint.presFail} ELSE IF ev.fault = "pres" THEN {TRUE} ELSE {FALSE})}
    ELSE IF ev.k = "send" THEN
        {[BaseChoice EXCEPT !.alt = a, !.sendFail = sf] :
            a \in AltsFor(ev),
            sf \in (IF hint.has THEN {hint.sendFail} ELSE {ev.fault = "send"})}
    ELSE {BaseChoice}

Step(s, ev, ch) ==
    CASE ev.k = "recv"    -> Recv(s, ev, ch)
      [] ev.k = "recvbad" -> RecvBad(s)
      [] ev.k = "recvundec" -> RecvUndecodable(s)
      [] ev.k = "recvlong" -> RecvUndecodable(s)     \* a line longer than the stream limit: a transport error as well
      [] ev.k = "send"    -> Send(s, ev, ch)
      [] ev.k = "sendjunk" -> SendJunk(s)
      [] ev.k = "reboot"  -> SetReboot(s, ev.n)
      [] ev.k = "cycle"   -> Quiet(s, Done)     \* the gateway context is left and entered again: nothing changes
      [] ev.k = "sibling" -> Quiet(s, Done)     \* another Gateway object in the same process learns another version:
                                                \* nothing changes here (state is per gateway, not per process)
      [] ev.k = "snapshot" -> Quiet(s, Done)    \* the registry is saved to a file
      [] ev.k = "reload"  -> Quiet(s, Done)     \* an earlier snapshot is loaded again: no id in use disappears
                                                \* (only used under the C11 focus: node contents may revert)

(* Results(s, ev, NoHint): all results the properties allow (viol = {} by construction).  *)
(* With a hint the choices follow what was observed and r.viol names the constraints  *)
(* the observed choice breaks ("flush": not exactly the woken node's parked commands; *)
(* "id": the id handed out is not fresh / the error is not justified).                *)
Results(s, ev, hint) == {Step(s, ev, ch) : ch \in Choices(s, ev, hint)}

=============================================================================
