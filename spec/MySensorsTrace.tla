-------------------------- MODULE MySensorsTrace --------------------------
(***************************************************************************)
(* Trace validation: executions recorded from the real Gateway (harness/   *)
(* gwdriver.py) are matched, event by event, against the reference         *)
(* operators of MySensorsCore.                                             *)
(*                                                                         *)
(*  - The file IOEnv.TRACE_FILE holds a JSON object {"traces": [...]}.     *)
(*    Init lets tid range over all traces; every trace advances its own    *)
(*    position l, so thousands of traces are validated per TLC run.        *)
(*  - Before each event the public part of the state is taken from the     *)
(*    logged pre-projection (sync), the hidden part (sleep buffer,         *)
(*    outstanding presentation requests, held messages) is carried by the  *)
(*    specification and so inferred.                                       *)
(*  - Focus selects which observables are compared (DESIGN.md 5.4).        *)
(*  - A trace is accepted when it reaches l = Len + 1 (line "ACCEPT" tid); *)
(*    a trace that cannot take its next event prints "REJECT" tid l.       *)
(***************************************************************************)
EXTENDS MySensorsCore, Json, IOUtils, TLCExt

CONSTANT Focus

Data   == JsonDeserialize(IOEnv.TRACE_FILE)
Traces == Data.traces

VARIABLES tid, l, hid    \* hid = [setbuf, asked, held, prevErr]
tvars == <<tid, l, hid>>

-----------------------------------------------------------------------------
(* JSON -> specification values *)
ToSet(seq) == {seq[i] : i \in 1..Len(seq)}
PairsToFn(pairs, F(_)) ==
    LET ks == {pr[1] : pr \in ToSet(pairs)} IN
    [k \in ks |-> F((CHOOSE pr \in ToSet(pairs) : pr[1] = k)[2])]
Ident(x) == x
ChildOf(j) == [type |-> j.type, desc |-> j.desc, vals |-> PairsToFn(j.vals, Ident)]
NodeOf(j)  == [type |-> j.type, ver |-> j.ver, bat |-> j.bat, sn |-> j.sn, sv |-> j.sv, hb |-> j.hb,
               sl |-> j.sl, rb |-> j.rb, ch |-> PairsToFn(j.ch, ChildOf)]
NodesOf(pairs) == PairsToFn(pairs, NodeOf)
WriteMsg(w) == Msg(w.n, w.c, w.cmd, w.ack, w.t, w.p)
NoRb(nodes) == [n \in DOMAIN nodes |-> [nodes[n] EXCEPT !.rb = FALSE]]

E(t, i)  == Traces[t].events[i]
State(t, i, h) ==
    [nodes |-> NodesOf(E(t, i).pre.nodes), ver |-> E(t, i).pre.ver, proto |-> E(t, i).pre.proto,
     metric |-> Traces[t].init.metric, setbuf |-> h.setbuf, asked |-> h.asked, held |-> h.held]

OkWrites(e)   == SelectSeq(e.wr, LAMBDA w : w.ok)
FailWrites(e) == SelectSeq(e.wr, LAMBDA w : ~w.ok)
IsPresW(m)  == m.cmd = C_INTERNAL /\ m.t = I_PRESENTATION
IsIdRespW(m) == m.cmd = C_INTERNAL /\ m.t = I_ID_RESPONSE

HintOf(s, e) ==
    LET post == NodesOf(e.post.nodes)
        known == e.n \in DOMAIN post
    IN  [has |-> TRUE, id |-> e.hint.id,
         bat |-> IF known THEN post[e.n].bat ELSE 0,
         hb  |-> IF known THEN post[e.n].hb ELSE 0,
         proto |-> e.post.proto,
         rel |-> {WriteMsg(w) : w \in ToSet(OkWrites(e))},
         relFail |-> {WriteMsg(w) : w \in ToSet(FailWrites(e))},
         presFail |-> \E w \in ToSet(FailWrites(e)) : IsPresW(w),
         sendFail |-> e.k = "send" /\ FailWrites(e) # <<>>]

-----------------------------------------------------------------------------
(* Comparison of one allowed result r with the logged event e, per focus *)
Count(seq, x) == Cardinality({i \in 1..Len(seq) : seq[i] = x})
SameBag(seq, seq2) == \A x \in ToSet(seq) \cup ToSet(seq2) : Count(seq, x) = Count(seq2, x)
MsgsOf(ws) == [i \in 1..Len(ws) |-> WriteMsg(ws[i])]

OutcomeMatches(r, e) ==
    /\ e.out.k = r.out.k
    /\ (e.out.k = "err") => /\ e.out.cls \in r.out.cls
                            /\ (e.out.cls \in {"MissingNode", "MissingChild"}) => e.out.id = r.out.id
    /\ (e.out.k = "yield") => e.out.m = r.out.m

(* the successful writes the reference expects, as a bag: reactions in order, the presentation *)
(* request, the released commands (a set: any order)                                           *)
ExpCount(r, x) == Count(r.react, x) + (IF r.presOk THEN Count(r.pres, x) ELSE 0)
                  + (IF x \in r.rel THEN (IF x \in DOMAIN r.relCount THEN r.relCount[x] ELSE 1) ELSE 0)
ExpSupport(r)  == ToSet(r.react) \cup ToSet(r.pres) \cup r.rel
BagMatches(ok, r, F(_)) == \A x \in ToSet(ok) \cup ExpSupport(r) : F(x) => Count(ok, x) = ExpCount(r, x)
IsReactW(r, m)  == ~IsPresW(m) /\ m \notin r.rel /\ m \notin r.relFail
AnyW(m) == TRUE
IsSetW(m) == m.cmd = C_SET

Match(r, e, prevErr) ==
    LET ok == MsgsOf(OkWrites(e))
        full == OutcomeMatches(r, e) /\ NoRb(NodesOf(e.post.nodes)) = NoRb(r.nodes)
                /\ e.post.ver = r.ver /\ e.post.proto = r.proto /\ BagMatches(ok, r, AnyW)
    IN
    \* C03: nothing but a message or a library error, and normal service after an error
    /\ ("family" \in Focus) => e.out.k \in {"yield", "ok", "err"}
    /\ ("afterError" \in Focus /\ prevErr) => full
    \* C04
    /\ ("outcome" \in Focus) => OutcomeMatches(r, e)
    /\ ("registry" \in Focus) => NoRb(NodesOf(e.post.nodes)) = NoRb(r.nodes)
    \* C05
    /\ ("version" \in Focus) => (e.post.ver = r.ver /\ e.post.proto = r.proto)
    \* (the rules in force show in what happens to a message: handled, or refused with which class of error)
    /\ ("outcomeKind" \in Focus) => (e.out.k = r.out.k /\ (e.out.k = "err" => e.out.cls \in r.out.cls))
    /\ ("gate" \in Focus) => ((e.out.k = "err" /\ e.out.cls = "Unsupported")
                               <=> (r.out.k = "err" /\ r.out.cls = {"Unsupported"}))
    \* C06: the reaction writes, in order
    \* (the reaction is specified relative to what happened to the line: the allowed result must
    \* also agree with the observed kind of outcome - message or error)
    /\ ("react" \in Focus) => (SelectSeq(ok, LAMBDA m : IsReactW(r, m)) = r.react /\ e.out.k = r.out.k)
    \* C07 / C08: set commands written at sends and wakes
    /\ ("sets" \in Focus) =>
          /\ "flush" \notin r.viol
          /\ BagMatches(ok, r, IsSetW)
    /\ ("faultReported" \in Focus) => (r.relFail # {} => (e.out.k = "err" /\ e.out.cls = "Transport"))
    \* C10: presentation requests only
    /\ ("pres" \in Focus) =>
          \* (a presentation request the application sends itself is its own message, not a request of the controller)
          \* (... nor is one the application sent earlier to a sleeping node and that is released at this wake)
          SelectSeq(MsgsOf(e.wr), LAMBDA m : IsPresW(m) /\ m \notin r.rel /\ m \notin r.relFail)
             = SelectSeq(SelectSeq(r.react, IsPresW) \o r.pres, LAMBDA m : m \notin r.rel /\ m \notin r.relFail)
    \* C11
    /\ ("ids" \in Focus) =>
          /\ "id" \notin r.viol
          /\ SelectSeq(ok, IsIdRespW) = SelectSeq(r.react, IsIdRespW)
          /\ DOMAIN NodesOf(e.post.nodes) = DOMAIN r.nodes
          /\ (e.out.k = "err" /\ e.out.cls = "TooManyNodes") <=> (r.out.k = "err" /\ r.out.cls = {"TooManyNodes"})
          /\ \A w \in ToSet(e.wr) : IsIdRespW(w) => (e.hint.id \in ToSet(w.ids))   \* registered before the answer
    \* C12: per send written now / held / library error; held messages leave at the wake
    /\ ("sendres" \in Focus) =>
          /\ (e.k \in {"send", "sendjunk"}) => (e.out.k = r.out.k /\ (e.out.k = "err" => e.out.cls \in r.out.cls))
          /\ "flush" \notin r.viol
          /\ BagMatches(ok, r, AnyW)

-----------------------------------------------------------------------------
NoHid == [setbuf |-> EmptyFn, asked |-> {}, held |-> EmptyFn, prevErr |-> FALSE]

TraceInit == /\ tid \in 1..Len(Traces)
             /\ l = 1
             /\ hid = NoHid

EventStep ==
    /\ l <= Len(Traces[tid].events)
    /\ LET e == E(tid, l)
           s == State(tid, l, hid)
       IN  \E r \in Results(s, e, HintOf(s, e)) :
              /\ Match(r, e, hid.prevErr)
              /\ hid' = [setbuf |-> r.setbuf, asked |-> r.asked, held |-> r.held,
                         prevErr |-> e.out.k \notin {"yield", "ok"}]
    /\ l' = l + 1
    /\ tid' = tid

TraceNext == EventStep
TraceSpec == TraceInit /\ [][TraceNext]_tvars

(* verdict lines, one per trace *)
Accepted == (l = Len(Traces[tid].events) + 1) => PrintT(<<"ACCEPT", tid>>)
Stuck    == (l <= Len(Traces[tid].events) /\ ~ENABLED EventStep) => PrintT(<<"REJECT", tid, l>>)

=============================================================================
