------------------------------ MODULE Persist ------------------------------
(***************************************************************************)
(* C13 / C14.  The persistence file as a JSON value, and what it denotes.  *)
(*                                                                         *)
(* JSON values are tagged records (TLA+ has no dynamic type test):         *)
(*   [j |-> "null"]  [j |-> "bool", v]  [j |-> "int", v]  [j |-> "num"]    *)
(*   (a float or an integer too large for TLC)  [j |-> "str", v]           *)
(*   [j |-> "arr", v : Seq(json)]  [j |-> "obj", v : Seq(<<key, json>>)]   *)
(*                                                                         *)
(* Denote(file)        = the registry a file in the native layout means,   *)
(* DenoteLegacy(file)  = the same for the pymysensors layout,              *)
(* or Gray when the file is not exactly of that layout (then C14 only      *)
(* requires: load succeeds or raises the persistence read error).          *)
(* A registry has the shape used in MySensorsCore (node id -> record).     *)
(***************************************************************************)
EXTENDS Integers, Sequences, FiniteSets, TLC

(* every partial result is a record with an ok flag (TLC cannot compare values of different shapes) *)
Gray == [ok |-> FALSE]

JNull == [j |-> "null"]
JBool(b) == [j |-> "bool", v |-> b]
JInt(i) == [j |-> "int", v |-> i]
JNum == [j |-> "num"]
JStr(s) == [j |-> "str", v |-> s]
JArr(q) == [j |-> "arr", v |-> q]
JObj(pairs) == [j |-> "obj", v |-> pairs]

IsObj(x) == x.j = "obj"
Keys(o) == {o.v[i][1] : i \in 1..Len(o.v)}
UniqueKeys(o) == \A i, k \in 1..Len(o.v) : o.v[i][1] = o.v[k][1] => i = k
Get(o, key) == (CHOOSE pr \in {o.v[i] : i \in 1..Len(o.v)} : pr[1] = key)[2]
Is(x, tag) == x.j = tag

(* decimal keys of the children / values maps: the harness passes them as tagged [key text, int] *)
\* An object key is logged as the string itself; the registry needs its integer value, which the
\* harness supplies next to it: object members are <<key, value, keyNum, isNum>> where isNum says
\* that the key spells an integer in plain decimal and keyNum is that integer (an opaque token
\* "BIG:<digits>" beyond TLC's range, only inside value maps).
Member(o, i) == o.v[i]

EmptyFn == [x \in {} |-> 0]

ValuesOf(o) ==   \* {"<int>": "<str>", ...}
    IF ~IsObj(o) \/ ~UniqueKeys(o) \/ \E i \in 1..Len(o.v) : (~o.v[i][4] \/ ~Is(o.v[i][2], "str")) THEN Gray
    ELSE [ok |-> TRUE, f |-> [k \in {o.v[i][3] : i \in 1..Len(o.v)} |-> (CHOOSE pr \in {o.v[i] : i \in 1..Len(o.v)} : pr[3] = k)[2].v]]

ChildOf(o, idKey, typeKey) ==
    IF ~IsObj(o) \/ ~UniqueKeys(o) \/ Keys(o) # {idKey, typeKey, "description", "values"} THEN Gray
    ELSE IF ~Is(Get(o, idKey), "int") \/ ~Is(Get(o, typeKey), "int") \/ ~Is(Get(o, "description"), "str") THEN Gray
    ELSE LET vals == ValuesOf(Get(o, "values")) IN
         IF ~vals.ok THEN Gray
         ELSE [ok |-> TRUE, id |-> Get(o, idKey).v, child |-> [type |-> Get(o, typeKey).v, desc |-> Get(o, "description").v, vals |-> vals.f]]

ChildrenOf(o, idKey, typeKey) ==
    IF ~IsObj(o) \/ ~UniqueKeys(o) THEN Gray
    ELSE LET cs == [i \in 1..Len(o.v) |-> ChildOf(o.v[i][2], idKey, typeKey)] IN
         IF \E i \in 1..Len(cs) : ~cs[i].ok THEN Gray
         ELSE IF \E i \in 1..Len(cs) : ~o.v[i][4] \/ o.v[i][3] # cs[i].id THEN Gray          \* member key must spell the child id
         ELSE IF \E i, k \in 1..Len(cs) : i # k /\ cs[i].id = cs[k].id THEN Gray
         ELSE [ok |-> TRUE, f |-> [c \in {cs[i].id : i \in 1..Len(cs)} |-> (CHOOSE x \in {cs[i] : i \in 1..Len(cs)} : x.id = c).child]]

NativeNodeKeys == {"node_id", "node_type", "protocol_version", "children", "sketch_name", "sketch_version",
                   "battery_level", "heartbeat", "sleeping"}
NodeOfNative(o) ==
    IF ~IsObj(o) \/ ~UniqueKeys(o) \/ Keys(o) # NativeNodeKeys THEN Gray
    ELSE IF \/ ~Is(Get(o, "node_id"), "int") \/ ~Is(Get(o, "node_type"), "int") \/ ~Is(Get(o, "protocol_version"), "str")
            \/ ~Is(Get(o, "sketch_name"), "str") \/ ~Is(Get(o, "sketch_version"), "str")
            \/ ~Is(Get(o, "battery_level"), "int") \/ ~Is(Get(o, "heartbeat"), "int") \/ ~Is(Get(o, "sleeping"), "bool")
         THEN Gray
    ELSE IF Get(o, "node_id").v \notin 0..255 THEN Gray
    ELSE LET ch == ChildrenOf(Get(o, "children"), "child_id", "child_type") IN
         IF ~ch.ok THEN Gray
         ELSE [ok |-> TRUE, id |-> Get(o, "node_id").v,
               node |-> [type |-> Get(o, "node_type").v, ver |-> Get(o, "protocol_version").v,
                         bat |-> Get(o, "battery_level").v, sn |-> Get(o, "sketch_name").v,
                         sv |-> Get(o, "sketch_version").v, hb |-> Get(o, "heartbeat").v,
                         sl |-> Get(o, "sleeping").v, rb |-> FALSE, ch |-> ch.f]]

(* pymysensors layout: sensor_id / type (null = gateway, 18) / sketch_* may be null / no sleeping flag *)
LegacyNodeKeys == {"sensor_id", "type", "protocol_version", "children", "sketch_name", "sketch_version",
                   "battery_level", "heartbeat"}
StrOrNull(x) == Is(x, "str") \/ Is(x, "null")
NodeOfLegacy(o) ==
    IF ~IsObj(o) \/ ~UniqueKeys(o) \/ Keys(o) # LegacyNodeKeys THEN Gray
    ELSE IF \/ ~Is(Get(o, "sensor_id"), "int") \/ ~(Is(Get(o, "type"), "int") \/ Is(Get(o, "type"), "null"))
            \/ ~Is(Get(o, "protocol_version"), "str")
            \/ ~StrOrNull(Get(o, "sketch_name")) \/ ~StrOrNull(Get(o, "sketch_version"))
            \/ ~Is(Get(o, "battery_level"), "int") \/ ~Is(Get(o, "heartbeat"), "int")
         THEN Gray
    ELSE IF Get(o, "sensor_id").v \notin 0..255 THEN Gray
    ELSE LET ch == ChildrenOf(Get(o, "children"), "id", "type") IN
         IF ~ch.ok THEN Gray
         ELSE [ok |-> TRUE, id |-> Get(o, "sensor_id").v,
               node |-> [type |-> IF Is(Get(o, "type"), "null") THEN 18 ELSE Get(o, "type").v,
                         ver |-> Get(o, "protocol_version").v,
                         bat |-> Get(o, "battery_level").v,
                         sn |-> IF Is(Get(o, "sketch_name"), "null") THEN "" ELSE Get(o, "sketch_name").v,
                         sv |-> IF Is(Get(o, "sketch_version"), "null") THEN "" ELSE Get(o, "sketch_version").v,
                         hb |-> Get(o, "heartbeat").v, sl |-> FALSE, rb |-> FALSE, ch |-> ch.f]]

RegistryOf(file, NodeOf(_)) ==
    IF ~IsObj(file) \/ ~UniqueKeys(file) THEN Gray
    ELSE LET ns == [i \in 1..Len(file.v) |-> NodeOf(file.v[i][2])] IN
         IF \E i \in 1..Len(ns) : ~ns[i].ok THEN Gray
         ELSE IF \E i \in 1..Len(ns) : ~file.v[i][4] \/ file.v[i][3] # ns[i].id THEN Gray       \* member key must spell the node id
         ELSE IF \E i, k \in 1..Len(ns) : i # k /\ ns[i].id = ns[k].id THEN Gray
         ELSE [ok |-> TRUE, reg |-> [n \in {ns[i].id : i \in 1..Len(ns)} |-> (CHOOSE x \in {ns[i] : i \in 1..Len(ns)} : x.id = n).node]]

Denote(file)       == RegistryOf(file, NodeOfNative)
DenoteLegacy(file) == RegistryOf(file, NodeOfLegacy)

(* what the load validators of the current implementation declare; informational (used by the        *)
(* composition check "every registry the handlers can produce passes them", not by the round-trip verdict) *)
LoadAccepts(nodes) ==
    \A n \in DOMAIN nodes : n \in 0..255 /\ nodes[n].bat \in 0..100

=============================================================================
