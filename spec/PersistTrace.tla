---------------------------- MODULE PersistTrace ----------------------------
(* C13 / C14, code -> spec: cases recorded from the real Persistence         *)
(* (save to a real file, load into an empty registry, load of generated      *)
(* file contents) judged against Persist.tla.                                *)
(*   kind "roundtrip": reg = projection of the registry before save,         *)
(*        file = the JSON value save wrote, loaded = projection after load,  *)
(*        legacy = the same file rewritten in the pymysensors layout (or     *)
(*        null when the registry has no legacy form), loadedLegacy.          *)
(*   kind "snapshot": states = the registries that existed while save ran,   *)
(*        file = what it wrote, loaded = projection after load.              *)
(*   kind "load": file = a generated JSON value (or a byte-level class),     *)
(*        res = ok | readerror | other, loaded = projection after load.      *)
EXTENDS Persist, Json, IOUtils

Cases == JsonDeserialize(IOEnv.TRACE_FILE).cases
VARIABLE i

ToSet(seq) == {seq[k] : k \in 1..Len(seq)}
PairsToFn(pairs, F(_)) ==
    LET ks == {pr[1] : pr \in ToSet(pairs)} IN
    [k \in ks |-> F((CHOOSE pr \in ToSet(pairs) : pr[1] = k)[2])]
Ident(x) == x
ChildP(j) == [type |-> j.type, desc |-> j.desc, vals |-> PairsToFn(j.vals, Ident)]
NodeP(j)  == [type |-> j.type, ver |-> j.ver, bat |-> j.bat, sn |-> j.sn, sv |-> j.sv, hb |-> j.hb,
              sl |-> j.sl, rb |-> FALSE, ch |-> PairsToFn(j.ch, ChildP)]
Reg(pairs) == PairsToFn(pairs, NodeP)

RoundTripOK(cs) ==
    LET r == Reg(cs.reg)
        d == Denote(cs.file)
    IN  /\ cs.saveRes = "ok" /\ cs.loadRes = "ok"
        /\ d.ok /\ d.reg = r                       \* save wrote the registry in the native layout
        /\ Reg(cs.loaded) = r                      \* load reproduces every node and child
        /\ cs.hasLegacy =>
              LET dl == DenoteLegacy(cs.legacy) IN
              /\ dl.ok /\ dl.reg = r
              /\ cs.loadLegacyRes = "ok" /\ Reg(cs.loadedLegacy) = r

(* the registry after a load: exactly what the file denotes - or, when the registry already held other nodes *)
(* (seeded), at least every node of the file as the file has it (whether the others stay is not determined) *)
LoadedIs(cs, d) ==
    IF cs.seeded THEN \A n \in DOMAIN d : n \in DOMAIN Reg(cs.loaded) /\ Reg(cs.loaded)[n] = d[n]
    ELSE Reg(cs.loaded) = d

LoadOK(cs) ==
    /\ cs.res \in {"ok", "readerror"}
    \* a file of the exact layout loads to the registry it denotes; if it holds a value outside the usual
    \* range (battery level beyond 0-100) it may also be refused with the read error
    /\ (cs.class = "json" /\ Denote(cs.file).ok) =>
          IF LoadAccepts(Denote(cs.file).reg) THEN (cs.res = "ok" /\ LoadedIs(cs, Denote(cs.file).reg))
          ELSE (cs.res = "ok" => LoadedIs(cs, Denote(cs.file).reg))
    /\ (cs.class = "json" /\ DenoteLegacy(cs.file).ok) =>
          IF LoadAccepts(DenoteLegacy(cs.file).reg) THEN (cs.res = "ok" /\ LoadedIs(cs, DenoteLegacy(cs.file).reg))
          ELSE (cs.res = "ok" => LoadedIs(cs, DenoteLegacy(cs.file).reg))
    /\ (cs.class = "empty") => (cs.res = "ok" /\ (cs.before = <<>> => cs.loaded = <<>>))
    \* a missing file is created holding the current registry
    /\ (cs.class = "missing") => (cs.res = "ok" /\ Reg(cs.loaded) = Reg(cs.before)
                                  /\ cs.created /\ Denote(cs.file).ok /\ Denote(cs.file).reg = Reg(cs.before))

(* save ran while the registry kept changing: the file holds one of the registries that existed *)
(* while it ran (states), never a mixture of several, and loads to exactly that one              *)
SnapshotOK(cs) ==
    LET d == Denote(cs.file) IN
    /\ cs.saveRes = "ok" /\ cs.loadRes = "ok" /\ d.ok
    /\ \E k \in 1..Len(cs.states) : d.reg = Reg(cs.states[k])
    /\ Reg(cs.loaded) = d.reg

CaseOK(cs) == IF cs.kind = "roundtrip" THEN RoundTripOK(cs)
              ELSE IF cs.kind = "snapshot" THEN SnapshotOK(cs) ELSE LoadOK(cs)

Init == i = 0
Next == /\ i < Len(Cases)
        /\ i' = i + 1
        /\ (CaseOK(Cases[i']) \/ PrintT(<<"REJECT", i'>>))
Spec == Init /\ [][Next]_i
Finished == (i = Len(Cases)) => PrintT(<<"DONE", i>>)
=============================================================================
