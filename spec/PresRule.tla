------------------------------ MODULE PresRule ------------------------------
(* The presentation-request rule of C10 for any number of nodes and steps.   *)
(*   asked  nodes with a request outstanding (successfully written, not yet  *)
(*          answered by a presentation)                                      *)
(*   cnt    ghost: successful requests per node since its last presentation  *)
(*   wrote  the nodes a request was written to in this step (<= 1)           *)
(*   wok    whether that write succeeded                                     *)
(* Proved in spec/proofs/PresRuleProof.tla (TLAPS); the controller reference *)
(* refines it (spec/mc/MC_presrule.tla, TLC).                                *)
EXTENDS Integers

CONSTANT Nodes
VARIABLES asked, cnt, wrote, wok
vars == <<asked, cnt, wrote, wok>>

Init == asked = {} /\ cnt = [n \in Nodes |-> 0] /\ wrote = {} /\ wok = FALSE

(* a message from n is rejected for a missing node / child (protocol 2.x); ok = the request write succeeded *)
Reject(n, ok) ==
    IF n \in asked
    THEN wrote' = {} /\ wok' = FALSE /\ UNCHANGED <<asked, cnt>>
    ELSE /\ wrote' = {n} /\ wok' = ok
         /\ asked' = IF ok THEN asked \union {n} ELSE asked
         /\ cnt' = IF ok THEN [cnt EXCEPT ![n] = @ + 1] ELSE cnt
(* n presents itself: the episode is over *)
Present(n) == asked' = asked \ {n} /\ cnt' = [cnt EXCEPT ![n] = 0] /\ wrote' = {} /\ wok' = FALSE
(* anything else, and everything under a 1.x protocol: no request is written, no episode opens *)
(* (a 1.x presentation may or may not close an episode opened under 2.x: Present or Idle)      *)
Idle == wrote' = {} /\ wok' = FALSE /\ UNCHANGED <<asked, cnt>>

Next == \/ \E n \in Nodes, ok \in BOOLEAN : Reject(n, ok)
        \/ \E n \in Nodes : Present(n)
        \/ Idle
Spec == Init /\ [][Next]_vars

IndInv == /\ asked \subseteq Nodes
          /\ cnt \in [Nodes -> {0, 1}]
          /\ \A n \in Nodes : cnt[n] = 1 <=> n \in asked

(* at most one successful request per node and episode; a failed one does not count; nodes are independent *)
AtMostOne   == \A n \in Nodes : cnt'[n] <= 1
FailedDoesNotCount == (wrote' # {} /\ ~wok') => (asked' = asked /\ cnt' = cnt)
Independent == \A n \in Nodes : (n \notin wrote' /\ cnt'[n] # cnt[n]) => cnt'[n] = 0
=============================================================================
