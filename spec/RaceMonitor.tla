---------------------------- MODULE RaceMonitor ----------------------------
(***************************************************************************)
(* C09, reference role: judges executions of the REAL code in which send   *)
(* calls race with the wake-up flush.  It knows nothing about the          *)
(* algorithm, only the events                                              *)
(*    send_start(id, key, val)  send_end(id)   write(key, val)             *)
(* in the order they happened (a write is the moment the line is handed    *)
(* to the transport), and the three requirements of C09 at quiescence      *)
(* (all tasks finished and the node has woken once more).                  *)
(*                                                                         *)
(* "The last value sent" is ambiguous only between sends that overlap in   *)
(* time: a send S may be the last one for its key iff no other send for    *)
(* that key started after S returned.                                      *)
(***************************************************************************)
EXTENDS Integers, Sequences, FiniteSets, TLC, Json, IOUtils

Runs == JsonDeserialize(IOEnv.TRACE_FILE).runs
VARIABLES rid, done
mvars == <<rid, done>>

Ev(r) == Runs[r].events
Idx(r, P(_)) == {i \in 1..Len(Ev(r)) : P(Ev(r)[i])}

Sends(r)  == Idx(r, LAMBDA e : e.e = "send_start")
EndOf(r, i) == LET js == {j \in 1..Len(Ev(r)) : Ev(r)[j].e = "send_end" /\ Ev(r)[j].id = Ev(r)[i].id}
               IN  IF js = {} THEN Len(Ev(r)) + 1 ELSE CHOOSE j \in js : TRUE      \* a send that never returned
Writes(r) == Idx(r, LAMBDA e : e.e = "write")
Key(e) == <<e.n, e.c, e.t>>
KeysOf(r) == {Key(Ev(r)[i]) : i \in Sends(r) \cup Writes(r)}

MayBeLast(r, i) == \A j \in Sends(r) : (Key(Ev(r)[j]) = Key(Ev(r)[i]) /\ j # i) => ~(j > EndOf(r, i))
LastWrite(r, k) == LET ws == {i \in Writes(r) : Key(Ev(r)[i]) = k} IN
                   IF ws = {} THEN 0 ELSE CHOOSE i \in ws : \A j \in ws : j <= i

NoLostUpdate(r) ==
    \A k \in KeysOf(r) :
        ({i \in Sends(r) : Key(Ev(r)[i]) = k} # {}) =>
            /\ LastWrite(r, k) # 0
            /\ \E i \in Sends(r) : Key(Ev(r)[i]) = k /\ MayBeLast(r, i) /\ Ev(r)[i].v = Ev(r)[LastWrite(r, k)].v
OnlySentValues(r) ==
    \A w \in Writes(r) : \E i \in Sends(r) : i < w /\ Key(Ev(r)[i]) = Key(Ev(r)[w]) /\ Ev(r)[i].v = Ev(r)[w].v
                                              /\ Ev(r)[i].ack = Ev(r)[w].ack
NoMoreOftenThanSent(r) ==
    \A w \in Writes(r) :
        Cardinality({x \in Writes(r) : Key(Ev(r)[x]) = Key(Ev(r)[w]) /\ Ev(r)[x].v = Ev(r)[w].v})
          <= Cardinality({i \in Sends(r) : Key(Ev(r)[i]) = Key(Ev(r)[w]) /\ Ev(r)[i].v = Ev(r)[w].v})
AllReturned(r) == Runs[r].quiescent /\ \A i \in Sends(r) : EndOf(r, i) <= Len(Ev(r))

Verdict(r) == IF ~AllReturned(r) THEN "stuck"
              ELSE IF ~NoLostUpdate(r) THEN "lost-update"
              ELSE IF ~OnlySentValues(r) THEN "unsent-value"
              ELSE IF ~NoMoreOftenThanSent(r) THEN "repeated"
              ELSE "ok"

Init == rid \in 1..Len(Runs) /\ done = FALSE
Next == ~done /\ done' = TRUE /\ rid' = rid /\ PrintT(<<"VERDICT", rid, Verdict(rid)>>)
Spec == Init /\ [][Next]_mvars
=============================================================================
