----------------------------- MODULE SaveCrash -----------------------------
(***************************************************************************)
(* C15.  A small file-system model (names -> inodes -> bytes, descriptors  *)
(* with positions) executing the sequence of operations RECORDED from the  *)
(* real Persistence.save (strace), with the process allowed to die between *)
(* any two operations and inside a write after any prefix of its bytes     *)
(* (at multiples of Block).  Every distinct crash state is printed; the    *)
(* harness materialises it as real bytes and gives it to the real load.    *)
(* Process death, not power loss: bytes handed to the OS survive.          *)
(*                                                                         *)
(* A byte is <<source, index>>: source 0 = the file as last saved, source  *)
(* k = the buffer of the k-th recorded write.                              *)
(***************************************************************************)
EXTENDS Integers, Sequences, FiniteSets, TLC, Json, IOUtils

Rec    == JsonDeserialize(IOEnv.TRACE_FILE)
Ops    == Rec.ops          \* [op, path, path2, fd, len, off, trunc, creat, append, excl, wr]
OldLen == Rec.oldlen       \* size of the live file before the save (-1: no file)
Block  == Rec.block

VARIABLES names, inodes, fds, pc, part, nextIno
vars == <<names, inodes, fds, pc, part, nextIno>>

Bytes(src, lo, hi) == [i \in 1..(hi - lo + 1) |-> <<src, lo + i - 1>>]
Min(a, b) == IF a < b THEN a ELSE b
Max(a, b) == IF a > b THEN a ELSE b
Upd(f, k, v) == [x \in (DOMAIN f) \cup {k} |-> IF x = k THEN v ELSE f[x]]
Drop(f, k) == [x \in (DOMAIN f) \ {k} |-> f[x]]

(* write k bytes of buffer src at position pos of content c *)
Splice(c, pos, src, k) ==
    LET pad == IF pos > Len(c) THEN [i \in 1..(pos - Len(c)) |-> <<-1, 0>>] ELSE <<>>      \* hole: zero bytes
        base == c \o pad
    IN  SubSeq(base, 1, pos) \o Bytes(src, 1, k) \o SubSeq(base, pos + k + 1, Len(base))

Init == /\ names = IF OldLen >= 0 THEN [n \in {"live"} |-> 1] ELSE [n \in {} |-> 0]
        /\ inodes = IF OldLen >= 0 THEN [i \in {1} |-> Bytes(0, 1, OldLen)] ELSE [i \in {} |-> <<>>]
        /\ fds = [f \in {} |-> 0]
        /\ pc = 1 /\ part = -1 /\ nextIno = 2

NWrites(upto) == Cardinality({i \in 1..upto : Ops[i].op = "write"})

Exec(o, idx) ==
    CASE o.op = "open" ->
            IF o.path \in DOMAIN names
            THEN /\ inodes' = IF o.trunc THEN [inodes EXCEPT ![names[o.path]] = <<>>] ELSE inodes
                 /\ fds' = Upd(fds, o.fd, [ino |-> names[o.path], pos |-> 0, append |-> o.append])
                 /\ UNCHANGED <<names, nextIno>>
            ELSE IF o.creat
            THEN /\ names' = Upd(names, o.path, nextIno)
                 /\ inodes' = Upd(inodes, nextIno, <<>>)
                 /\ fds' = Upd(fds, o.fd, [ino |-> nextIno, pos |-> 0, append |-> o.append])
                 /\ nextIno' = nextIno + 1
            ELSE UNCHANGED <<names, inodes, fds, nextIno>>        \* the open failed (ENOENT)
      [] o.op = "write" ->
            /\ o.fd \in DOMAIN fds
            /\ LET d == fds[o.fd]
                   pos == IF d.append THEN Len(inodes[d.ino]) ELSE (IF o.off >= 0 THEN o.off ELSE d.pos)
               IN  /\ inodes' = [inodes EXCEPT ![d.ino] = Splice(@, pos, NWrites(idx), o.len)]
                   /\ fds' = IF o.off >= 0 THEN fds ELSE [fds EXCEPT ![o.fd].pos = pos + o.len]
            /\ UNCHANGED <<names, nextIno>>
      [] o.op = "lseek" ->
            /\ fds' = IF o.fd \in DOMAIN fds THEN [fds EXCEPT ![o.fd].pos = o.off] ELSE fds
            /\ UNCHANGED <<names, inodes, nextIno>>
      [] o.op = "ftruncate" ->
            /\ inodes' = IF o.fd \in DOMAIN fds
                         THEN [inodes EXCEPT ![fds[o.fd].ino] =
                                  IF o.len <= Len(@) THEN SubSeq(@, 1, o.len)
                                  ELSE @ \o [i \in 1..(o.len - Len(@)) |-> <<-1, 0>>]]       \* extended with zero bytes
                         ELSE inodes
            /\ UNCHANGED <<names, fds, nextIno>>
      [] o.op = "close" ->
            /\ fds' = IF o.fd \in DOMAIN fds THEN Drop(fds, o.fd) ELSE fds
            /\ UNCHANGED <<names, inodes, nextIno>>
      [] o.op = "rename" ->
            /\ names' = IF o.path \in DOMAIN names THEN Upd(Drop(names, o.path), o.path2, names[o.path]) ELSE names
            /\ UNCHANGED <<inodes, fds, nextIno>>
      [] o.op = "link" ->
            /\ names' = IF o.path \in DOMAIN names /\ o.path2 \notin DOMAIN names THEN Upd(names, o.path2, names[o.path]) ELSE names
            /\ UNCHANGED <<inodes, fds, nextIno>>
      [] o.op = "unlink" ->
            /\ names' = IF o.path \in DOMAIN names THEN Drop(names, o.path) ELSE names
            /\ UNCHANGED <<inodes, fds, nextIno>>
      [] OTHER -> UNCHANGED <<names, inodes, fds, nextIno>>      \* fsync etc.: no effect under process death

Step == /\ part = -1 /\ pc <= Len(Ops)
        /\ Exec(Ops[pc], pc)
        /\ pc' = pc + 1 /\ UNCHANGED part

(* the process dies inside write number pc after k bytes reached the OS *)
CrashInWrite ==
    /\ part = -1 /\ pc <= Len(Ops) /\ Ops[pc].op = "write" /\ Ops[pc].fd \in DOMAIN fds
    /\ \E k \in {x \in 1..(Ops[pc].len - 1) : x % Block = 0} :
          /\ Exec([Ops[pc] EXCEPT !.len = k], pc)
          /\ part' = k
    /\ UNCHANGED pc

Next == Step \/ CrashInWrite
Spec == Init /\ [][Next]_vars

(* every reachable state is a possible post-crash directory *)
Live == IF "live" \in DOMAIN names THEN inodes[names["live"]] ELSE <<>>
Dir == [n \in DOMAIN names |-> inodes[names[n]]]
SetToSeq(S) == CHOOSE q \in [1..Cardinality(S) -> S] : \A x \in S : \E i \in 1..Cardinality(S) : q[i] = x
Runs(c) ==   \* run-length form of a content: <<src, first index, count>>
    LET starts == {i \in 1..Len(c) : i = 1 \/ c[i][1] # c[i-1][1] \/ (c[i][1] # -1 /\ c[i][2] # c[i-1][2] + 1)}   \* zero bytes form one run
        RECURSIVE Build(_)
        Build(i) == IF i > Len(c) THEN <<>>
                    ELSE LET nxt == {s \in starts : s > i}
                             e == IF nxt = {} THEN Len(c) ELSE (CHOOSE s \in nxt : \A t \in nxt : s <= t) - 1
                         IN  <<<<c[i][1], c[i][2], e - i + 1>>>> \o Build(e + 1)
    IN  Build(1)
EmitCrash == PrintT(<<"CRASH", ToJson([pc |-> pc, part |-> part,
                                       files |-> [i \in 1..Cardinality(DOMAIN names) |->
                                                    LET n == SetToSeq(DOMAIN names)[i] IN <<n, Runs(inodes[names[n]])>>]])>>)
=============================================================================
