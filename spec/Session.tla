------------------------------- MODULE Session -------------------------------
(***************************************************************************)
(* Beyond the listed properties: the command line's session loop           *)
(* (cli/helper.py start_gateway) composed with the controller core.        *)
(*                                                                         *)
(*   async with gateway:                                                   *)
(*       while True:                                                       *)
(*           try:    async for msg in gateway.listen(): log                *)
(*           except  MissingNode / MissingChild / Unsupported: log, go on  *)
(*           except  any other library error: log, end the session         *)
(*                                                                         *)
(* The session survives references to unknown nodes / children and         *)
(* unsupported types, and ends - disconnecting the transport - at the      *)
(* first other library error (an invalid line, a transport failure, too    *)
(* many nodes ...).  Lines before that point are consumed in order, lines  *)
(* after it are not read.                                                  *)
(***************************************************************************)
EXTENDS MySensorsCore, Json

CONSTANTS Alphabet, InitStates, MaxDepth

VARIABLES st, session, consumed, hist
vars == <<st, session, consumed, hist>>
View == <<st, session, consumed>>

Survivable == {"MissingNode", "MissingChild", "Unsupported"}
Fatal(out) == out.k = "err" /\ (out.cls \cap Survivable) = {}
(* where the reference allows several error classes (any library error), ending and surviving are both allowed *)
MayEnd(out)  == out.k = "err" /\ ~(out.cls \subseteq Survivable)
MaySurvive(out) == out.k # "err" \/ (out.cls \cap Survivable) # {}

Install(s, r) == [s EXCEPT !.nodes = r.nodes, !.ver = r.ver, !.proto = r.proto,
                           !.setbuf = r.setbuf, !.asked = r.asked, !.held = r.held]

Init == /\ \E i \in 1..Len(InitStates) : st = InitStates[i] /\ hist = <<i>>
        /\ session = "running" /\ consumed = 0

Line(i) == /\ session = "running" /\ Len(hist) <= MaxDepth
           /\ \E r \in Results(st, Alphabet[i], NoHint) :
                 /\ st' = Install(st, r)
                 /\ \/ MayEnd(r.out) /\ session' = "ended"
                    \/ MaySurvive(r.out) /\ session' = "running"
           /\ consumed' = consumed + 1
           /\ hist' = Append(hist, i)
Next == \E i \in 1..Len(Alphabet) : Line(i)
Spec == Init /\ [][Next]_vars

(* once ended, nothing more is consumed; the registry of an ended session is what the last line left *)
EndedIsFinal == [][session = "ended" => UNCHANGED <<st, consumed>>]_vars
EndsOnlyOnFatal == [][ (session = "running" /\ session' = "ended") =>
                          \E i \in 1..Len(Alphabet) : \E r \in Results(st, Alphabet[i], NoHint) : MayEnd(r.out) ]_vars
Emit == PrintT(<<"COVER", ToJson(hist')>>)
=============================================================================
