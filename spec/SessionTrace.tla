---------------------------- MODULE SessionTrace ----------------------------
(* Code -> spec for Session.tla: the real cli start_gateway() is run over a   *)
(* fake transport preloaded with lines; recorded: how many lines it consumed, *)
(* the final registry, the number of disconnects, how it ended.  The          *)
(* reference replays the lines and must end the session at the same line.     *)
EXTENDS MySensorsCore, Json, IOUtils

Runs == JsonDeserialize(IOEnv.TRACE_FILE).runs
VARIABLES rid, l, st, ended
tvars == <<rid, l, st, ended>>

ToSet(seq) == {seq[i] : i \in 1..Len(seq)}
PairsToFn(pairs, F(_)) == LET ks == {pr[1] : pr \in ToSet(pairs)} IN
                          [k \in ks |-> F((CHOOSE pr \in ToSet(pairs) : pr[1] = k)[2])]
Ident(x) == x
ChildOf(j) == [type |-> j.type, desc |-> j.desc, vals |-> PairsToFn(j.vals, Ident)]
NodeOf(j)  == [type |-> j.type, ver |-> j.ver, bat |-> j.bat, sn |-> j.sn, sv |-> j.sv, hb |-> j.hb,
               sl |-> j.sl, rb |-> FALSE, ch |-> PairsToFn(j.ch, ChildOf)]
NodesOf(pairs) == PairsToFn(pairs, NodeOf)
NoRb(nodes) == [n \in DOMAIN nodes |-> [nodes[n] EXCEPT !.rb = FALSE]]

Survivable == {"MissingNode", "MissingChild", "Unsupported"}
Fatal(out) == out.k = "err" /\ (out.cls \cap Survivable) = {}
(* where the reference allows several error classes (any library error), ending and surviving are both allowed *)
MayEnd(out)  == out.k = "err" /\ ~(out.cls \subseteq Survivable)
MaySurvive(out) == out.k # "err" \/ (out.cls \cap Survivable) # {}
Install(s, r) == [s EXCEPT !.nodes = r.nodes, !.ver = r.ver, !.proto = r.proto,
                           !.setbuf = r.setbuf, !.asked = r.asked, !.held = r.held]
R == Runs[rid]
Init0 == [nodes |-> EmptyFn, ver |-> R.init.ver, proto |-> R.init.proto, metric |-> TRUE,
          setbuf |-> EmptyFn, asked |-> {}, held |-> EmptyFn]

TInit == rid \in 1..Len(Runs) /\ l = 1 /\ ended = FALSE
         /\ st = [nodes |-> EmptyFn, ver |-> Runs[rid].init.ver, proto |-> Runs[rid].init.proto, metric |-> TRUE,
                  setbuf |-> EmptyFn, asked |-> {}, held |-> EmptyFn]
TStep == /\ ~ended /\ l <= Len(R.events)
         /\ \E r \in Results(st, R.events[l], NoHint) :
               /\ r.viol = {}
               /\ DOMAIN r.nodes \subseteq DOMAIN NodesOf(R.final)      \* prune: only ids the real run registered
               /\ st' = Install(st, r)
               /\ \/ MayEnd(r.out) /\ ended' = TRUE
                  \/ MaySurvive(r.out) /\ ended' = FALSE
         /\ l' = l + 1 /\ rid' = rid
TSpec == TInit /\ [][TStep]_tvars
(* some reference behaviour ends the session exactly where the real one ended, with the same registry *)
Agrees == ended /\ (l - 1) = R.consumed /\ NoRb(st.nodes) = NoRb(NodesOf(R.final)) /\ R.disconnects = 1 /\ R.result = "returned"
Verdict == Agrees => PrintT(<<"ACCEPT", rid>>)
=============================================================================
