------------------------------- MODULE Stable -------------------------------
(***************************************************************************)
(* C19.  Self-composition of the controller core: two instances of the     *)
(* reference run in lock-step on the same event under an older and a newer *)
(* protocol; within the scope C19 states they must agree on outcome,       *)
(* writes and registry.                                                    *)
(*                                                                         *)
(* Scope (C19): every message type of the history exists in the older      *)
(* protocol; the heartbeat response is excepted between 2.0/2.1 and 2.2;   *)
(* across 1.x -> 2.x no unknown node or child is referenced and no         *)
(* gateway-ready message occurs.                                           *)
(***************************************************************************)
EXTENDS MySensorsCore, Json

CONSTANTS Alphabet, InitRegs, Pairs, MaxDepth

VARIABLES sa, sb, pair, agree, hist
vars == <<sa, sb, pair, agree, hist>>
View == <<sa, sb, pair, agree>>

Major(p) == IF Is2x(p) THEN 2 ELSE 1
InScope(ev, older, newer) ==
    /\ (ev.k \in {"recv", "send"} /\ ev.cmd = C_INTERNAL) => ev.t \in InternalTypes(older)
    /\ (ev.k \in {"recv", "send"} /\ ev.cmd = C_STREAM) => ev.t \in StreamTypes
    /\ (Major(older) # Major(newer)) => ~(ev.k = "recv" /\ ev.cmd = C_INTERNAL /\ ev.t = I_GATEWAY_READY)
(* across majors a reference to an unknown node / child ends the comparable part of a history *)
LeavesScope(r, older, newer) == Major(older) # Major(newer) /\ IsMissing(r.out)
(* the one exception: a heartbeat response of a KNOWN node (sleeping flag, release) differs between 2.0/2.1  *)
(* and 2.2; one from an unknown node must be refused identically                                              *)
HeartbeatException(ev, r, older, newer) ==
    /\ ev.k = "recv" /\ ev.cmd = C_INTERNAL /\ ev.t = I_HEARTBEAT_RESPONSE /\ newer = "2.2" /\ older # "2.2"
    /\ ~IsMissing(r.out)

Install(s, r) == [s EXCEPT !.nodes = r.nodes, !.ver = r.ver, !.proto = r.proto,
                           !.setbuf = r.setbuf, !.asked = r.asked, !.held = r.held]
St0(reg, p) == [nodes |-> reg, ver |-> p, proto |-> p, metric |-> TRUE, setbuf |-> EmptyFn, asked |-> {}, held |-> EmptyFn]

Init == /\ pair \in Pairs
        /\ \E reg \in InitRegs : sa = St0(reg, pair[1]) /\ sb = St0(reg, pair[2])
        /\ agree = TRUE /\ hist = <<>>

Same(ra, rb) == /\ ra.out = rb.out /\ ra.react = rb.react /\ ra.pres = rb.pres /\ ra.rel = rb.rel
                /\ ra.nodes = rb.nodes

Do(i) == /\ Len(hist) < MaxDepth /\ agree
         /\ InScope(Alphabet[i], pair[1], pair[2])
         /\ \E ch \in Choices(sa, Alphabet[i], NoHint) :
               LET ra == Step(sa, Alphabet[i], ch)
                   rb == Step(sb, Alphabet[i], ch)          \* the same environment choices on both sides
               IN  /\ ra.viol = {}
                   /\ ~LeavesScope(ra, pair[1], pair[2])
                   /\ ~HeartbeatException(Alphabet[i], ra, pair[1], pair[2])
                   /\ sa' = Install(sa, ra) /\ sb' = Install(sb, rb)
                   /\ agree' = Same(ra, rb)
         /\ hist' = Append(hist, i) /\ UNCHANGED pair
Next == \E i \in 1..Len(Alphabet) : Do(i)
Spec == Init /\ [][Next]_vars

(* C19 on the reference itself *)
VersionStable == agree
HiddenStateAlsoAgrees == agree => (sa.setbuf = sb.setbuf /\ sa.held = sb.held)
=============================================================================
