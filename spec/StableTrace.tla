----------------------------- MODULE StableTrace -----------------------------
(* C19, code -> spec: the same history executed on two real gateways under an *)
(* older and a newer protocol; within the scope defined in Stable.tla every   *)
(* step must agree on outcome, writes and registry.                           *)
EXTENDS MySensorsCore, Json, IOUtils

Runs == JsonDeserialize(IOEnv.TRACE_FILE).runs
VARIABLES rid, l
tvars == <<rid, l>>

Major(p) == IF Is2x(p) THEN 2 ELSE 1
InScope(ev, older, newer) ==
    /\ (ev.k \in {"recv", "send"} /\ ev.cmd = C_INTERNAL) => ev.t \in InternalTypes(older)
    /\ (ev.k \in {"recv", "send"} /\ ev.cmd = C_STREAM) => ev.t \in StreamTypes
    /\ (Major(older) # Major(newer)) => ~(ev.k = "recv" /\ ev.cmd = C_INTERNAL /\ ev.t = I_GATEWAY_READY)
    /\ ~(ev.k = "recv" /\ ev.cmd = C_INTERNAL /\ ev.t = I_VERSION)             \* would switch the protocol itself
    /\ ~(ev.k = "recv" /\ ev.cmd = C_PRESENTATION /\ ev.n = 0 /\ ev.c = SysChild)
IsMissingOut(o) == o.k = "err" /\ o.cls \in {"MissingNode", "MissingChild"}
RefusedPayload(o) == o.k = "err" /\ o.cls = "InvalidMessage"
(* the one exception of C19: a heartbeat response of a KNOWN node marks it as sleeping and releases its  *)
(* commands in 2.0 / 2.1 but not in 2.2 - from there on the two runs legitimately differ.  A heartbeat  *)
(* response from an unknown node must still be refused identically.                                      *)
HeartbeatException(ev, x, y, older, newer) ==
    /\ ev.k = "recv" /\ ev.cmd = C_INTERNAL /\ ev.t = I_HEARTBEAT_RESPONSE /\ newer = "2.2" /\ older # "2.2"
    /\ ~IsMissingOut(x.out) /\ ~IsMissingOut(y.out)      \* the node is known: the sleeping flag may differ from here on
    /\ ~(RefusedPayload(x.out) /\ y.out.k = "yield") /\ ~(RefusedPayload(y.out) /\ x.out.k = "yield")   \* (one payload, one judgement)
                                                          \* (also when the payload was unusable: 5.3, the flag may be set already)

A(i) == Runs[rid].a[i]
B(i) == Runs[rid].b[i]
Older == Runs[rid].older
Newer == Runs[rid].newer

Agree(x, y) == /\ x.out = y.out /\ x.wr = y.wr /\ x.post.nodes = y.post.nodes

(* the two sides of the exception themselves: under 2.0 / 2.1 the heartbeat response marks the node as    *)
(* sleeping; under 2.2 it does not change any sleeping flag and releases no set command                   *)
ToSet(q) == {q[i] : i \in 1..Len(q)}
SleepFlags(nodes) == {<<pr[1], pr[2].sl>> : pr \in ToSet(nodes)}
ExceptionSidesOK(x, y, newer) ==
    /\ <<x.n, TRUE>> \in SleepFlags(x.post.nodes)
    /\ (newer = "2.2") => /\ SleepFlags(y.post.nodes) = SleepFlags(y.pre.nodes)
                          /\ \A i \in 1..Len(y.wr) : y.wr[i].cmd # C_SET

TStep ==
    /\ l <= Len(Runs[rid].a)
    /\ InScope(A(l), Older, Newer)                      \* the generator only produces in-scope events
    /\ IF \/ Major(Older) # Major(Newer) /\ (IsMissingOut(A(l).out) \/ IsMissingOut(B(l).out))
          \/ HeartbeatException(A(l), A(l), B(l), Older, Newer)
       THEN /\ l' = Len(Runs[rid].a) + 1              \* an unknown reference ends the comparable part
            /\ (HeartbeatException(A(l), A(l), B(l), Older, Newer) /\ A(l).out.k = "yield" /\ B(l).out.k = "yield")
                   => ExceptionSidesOK(A(l), B(l), Newer)
       ELSE (Agree(A(l), B(l)) /\ l' = l + 1)
    /\ rid' = rid
TInit == rid \in 1..Len(Runs) /\ l = 1
Spec == TInit /\ [][TStep]_tvars
Accepted == (l = Len(Runs[rid].a) + 1) => PrintT(<<"ACCEPT", rid>>)
Stuck    == (l <= Len(Runs[rid].a) /\ ~ENABLED TStep) => PrintT(<<"REJECT", rid, l>>)
=============================================================================
