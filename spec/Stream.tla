------------------------------- MODULE Stream -------------------------------
(***************************************************************************)
(* C17.  A serial / TCP transport: bytes arrive from the peer in chunks,   *)
(* reads return one newline-terminated line each, writes put bytes on the  *)
(* stream; connect / disconnect / I/O faults.  Reference role: the         *)
(* outcomes are defined from the byte stream alone, so they cannot depend  *)
(* on the chunking (ChunkingIndependent is checked over the whole graph).  *)
(***************************************************************************)
EXTENDS StreamCore, Json

CONSTANTS Streams,      \* set of byte sequences the peer may send
          WriteLines,   \* set of code-point sequences the application may write
          MaxReads, MaxWrites, MaxConnects, WithFaults

VARIABLES stream, wire, rbuf, eof, conn, pending, results, peer, nw, nconn, hist
vars == <<stream, wire, rbuf, eof, conn, pending, results, peer, nw, nconn, hist>>
View == <<stream, wire, rbuf, eof, conn, pending, results, peer, nw, nconn>>

LineOutcome(bytes) == LET d == Utf8Decode(bytes) IN IF d.ok THEN <<"line", d.s>> ELSE <<"error", <<>>>>
Err == <<"error", <<>>>>

Init == /\ stream \in Streams /\ wire = stream /\ rbuf = <<>> /\ eof = FALSE
        /\ conn = "new" /\ pending = FALSE /\ results = <<>> /\ peer = <<>> /\ nw = 0 /\ nconn = 0 /\ hist = <<>>

(* connect, also again after a disconnect: a new connection, nothing of the old stream is left *)
Connect(ok) == /\ conn \in {"new", "closed"} /\ (ok \/ Len(results) < 2) /\ nconn < MaxConnects
               /\ nconn' = nconn + 1
               /\ conn' = IF ok THEN "connected" ELSE conn
               /\ results' = IF ok THEN results ELSE Append(results, <<"connect-error", <<>>>>)
               /\ hist' = Append(hist, <<"connect", ok>>)
               /\ rbuf' = (IF ok THEN <<>> ELSE rbuf)
               /\ eof' = (IF ok THEN FALSE ELSE eof)
               /\ UNCHANGED <<stream, wire, pending, peer, nw>>

UseBeforeConnect(op) ==
    /\ conn = "new" /\ Len(results) < 2
    /\ results' = Append(results, Err)
    /\ hist' = Append(hist, <<op, "unconnected">>)
    /\ UNCHANGED <<stream, wire, rbuf, eof, conn, pending, peer, nw, nconn>>

Arrive(k) == /\ conn = "connected" /\ k \in 1..Len(wire)
             /\ rbuf' = rbuf \o SubSeq(wire, 1, k) /\ wire' = SubSeq(wire, k + 1, Len(wire))
             /\ hist' = Append(hist, <<"arrive", k>>)
             /\ UNCHANGED <<stream, eof, conn, pending, results, peer, nw, nconn>>

Eof == /\ conn = "connected" /\ wire = <<>> /\ ~eof
       /\ eof' = TRUE /\ hist' = Append(hist, <<"eof">>)
       /\ UNCHANGED <<stream, wire, rbuf, conn, pending, results, peer, nw, nconn>>

ReadStart == /\ conn = "connected" /\ ~pending /\ Len(results) < MaxReads
             /\ pending' = TRUE /\ hist' = Append(hist, <<"read">>)
             /\ UNCHANGED <<stream, wire, rbuf, eof, conn, results, peer, nw, nconn>>

(* a pending read completes as soon as a whole line is buffered, or the stream has ended *)
ReadDone == /\ pending
            /\ \/ /\ HasNL(rbuf)
                  /\ results' = Append(results, LineOutcome(SubSeq(rbuf, 1, FirstNL(rbuf))))
                  /\ rbuf' = SubSeq(rbuf, FirstNL(rbuf) + 1, Len(rbuf))
               \/ /\ ~HasNL(rbuf) /\ eof
                  /\ results' = Append(results, Err)          \* the stream ended mid-line (or is exhausted)
                  /\ rbuf' = <<>>
            /\ pending' = FALSE
            /\ hist' = hist                                   \* not a harness command: follows from the state
            /\ UNCHANGED <<stream, wire, eof, conn, peer, nw, nconn>>

Write(l, ok) == /\ conn = "connected" /\ nw < MaxWrites
                /\ nw' = nw + 1
                /\ peer' = IF ok THEN peer \o Utf8Encode(l) ELSE peer
                /\ results' = IF ok THEN results ELSE Append(results, Err)
                /\ hist' = Append(hist, <<"write", l, ok>>)
                /\ UNCHANGED <<stream, wire, rbuf, eof, conn, pending, nconn>>

Disconnect(ok) == /\ conn = "connected" /\ ~pending
                  /\ conn' = "closed"
                  /\ hist' = Append(hist, <<"disconnect", ok>>)      \* ok = FALSE: close raises OSError, absorbed
                  /\ UNCHANGED <<stream, wire, rbuf, eof, pending, results, peer, nw, nconn>>

Next == \/ \E ok \in (IF WithFaults THEN BOOLEAN ELSE {TRUE}) : Connect(ok) \/ Disconnect(ok)
        \/ (WithFaults /\ (UseBeforeConnect("read") \/ UseBeforeConnect("write")))
        \/ \E k \in 1..Len(wire) : Arrive(k)
        \/ Eof \/ ReadStart \/ ReadDone
        \/ \E l \in WriteLines, ok \in (IF WithFaults THEN BOOLEAN ELSE {TRUE}) : Write(l, ok)
Spec == Init /\ [][Next]_vars

-----------------------------------------------------------------------------
ReadResults == SelectSeq(results, LAMBDA r : r[1] \in {"line", "error"})
(* the n-th successful or failed read is determined by the byte stream, not by how it arrived *)
Expected(i) == LET ls == Lines(stream) IN IF i <= Len(ls) THEN LineOutcome(ls[i]) ELSE Err
ChunkingIndependent ==
    WithFaults \/ \A i \in 1..Len(ReadResults) : ReadResults[i] = Expected(i)
NoLineBeforeItArrived ==
    WithFaults \/ Len(SelectSeq(ReadResults, LAMBDA r : r[1] = "line")) <= Len(Lines(SubSeq(stream, 1, Len(stream) - Len(wire))))
PeerGetsExactBytes == \A i \in 1..Len(peer) : peer[i] \in 0..255
Emit == PrintT(<<"COVER", ToJson([stream |-> stream, hist |-> hist'])>>)
=============================================================================
