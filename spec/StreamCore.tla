----------------------------- MODULE StreamCore -----------------------------
(* Pure functions shared by Stream.tla (model) and StreamTrace.tla:          *)
(* UTF-8 decoding / encoding over byte sequences and line splitting.         *)
EXTENDS Integers, Sequences, FiniteSets, TLC

NLB == 10
Cont(b) == b >= 128 /\ b <= 191

(* decode one character at the head of q: [ok, len, cp] *)
Head1(q) ==
    LET b == q[1] IN
    IF b < 128 THEN [ok |-> TRUE, len |-> 1, cp |-> b]
    ELSE IF b >= 194 /\ b <= 223 THEN
        IF Len(q) >= 2 /\ Cont(q[2]) THEN [ok |-> TRUE, len |-> 2, cp |-> (b - 192) * 64 + (q[2] - 128)]
        ELSE [ok |-> FALSE, len |-> 0, cp |-> 0]
    ELSE IF b >= 224 /\ b <= 239 THEN
        IF Len(q) >= 3 /\ Cont(q[2]) /\ Cont(q[3])
           /\ (b = 224 => q[2] >= 160) /\ (b = 237 => q[2] <= 159)
        THEN [ok |-> TRUE, len |-> 3, cp |-> (b - 224) * 4096 + (q[2] - 128) * 64 + (q[3] - 128)]
        ELSE [ok |-> FALSE, len |-> 0, cp |-> 0]
    ELSE IF b >= 240 /\ b <= 244 THEN
        IF Len(q) >= 4 /\ Cont(q[2]) /\ Cont(q[3]) /\ Cont(q[4])
           /\ (b = 240 => q[2] >= 144) /\ (b = 244 => q[2] <= 143)
        THEN [ok |-> TRUE, len |-> 4, cp |-> (b - 240) * 262144 + (q[2] - 128) * 4096 + (q[3] - 128) * 64 + (q[4] - 128)]
        ELSE [ok |-> FALSE, len |-> 0, cp |-> 0]
    ELSE [ok |-> FALSE, len |-> 0, cp |-> 0]

RECURSIVE Utf8Decode(_)
Utf8Decode(q) ==      \* [ok, s] : s = code points
    IF Len(q) = 0 THEN [ok |-> TRUE, s |-> <<>>]
    ELSE LET h == Head1(q) IN
         IF ~h.ok THEN [ok |-> FALSE, s |-> <<>>]
         ELSE LET r == Utf8Decode(SubSeq(q, h.len + 1, Len(q))) IN
              IF r.ok THEN [ok |-> TRUE, s |-> <<h.cp>> \o r.s] ELSE r

EncodeCp(c) ==
    IF c < 128 THEN <<c>>
    ELSE IF c < 2048 THEN <<192 + (c \div 64), 128 + (c % 64)>>
    ELSE IF c < 65536 THEN <<224 + (c \div 4096), 128 + ((c \div 64) % 64), 128 + (c % 64)>>
    ELSE <<240 + (c \div 262144), 128 + ((c \div 4096) % 64), 128 + ((c \div 64) % 64), 128 + (c % 64)>>
RECURSIVE Utf8Encode(_)
Utf8Encode(s) == IF Len(s) = 0 THEN <<>> ELSE EncodeCp(s[1]) \o Utf8Encode(Tail(s))

HasNL(q) == \E i \in 1..Len(q) : q[i] = NLB
FirstNL(q) == CHOOSE i \in 1..Len(q) : q[i] = NLB /\ \A j \in 1..(i-1) : q[j] # NLB

(* the complete lines of a byte stream, terminators included, and the unterminated tail *)
RECURSIVE Lines(_)
Lines(q) == IF ~HasNL(q) THEN <<>> ELSE <<SubSeq(q, 1, FirstNL(q))>> \o Lines(SubSeq(q, FirstNL(q) + 1, Len(q)))
RECURSIVE TailOf(_)
TailOf(q) == IF ~HasNL(q) THEN q ELSE TailOf(SubSeq(q, FirstNL(q) + 1, Len(q)))
=============================================================================
