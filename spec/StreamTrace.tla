----------------------------- MODULE StreamTrace -----------------------------
(* C17 (and the stream half of C03), code -> spec: operations recorded from  *)
(* the real TCPTransport / SerialTransport over a hand-fed asyncio           *)
(* StreamReader and a fake writer, judged against the reference.             *)
EXTENDS StreamCore, Json, IOUtils

Runs == JsonDeserialize(IOEnv.TRACE_FILE).runs
VARIABLES rid, l, conn, rbuf, eof, ioerr, poisoned, pend
tvars == <<rid, l, conn, rbuf, eof, ioerr, poisoned, pend>>

Ev == Runs[rid].events[l]
Limit == Runs[rid].limit

RECURSIVE ConcatInOrder(_, _)
ConcatInOrder(texts, order) == IF Len(order) = 0 THEN <<>>
                               ELSE Utf8Encode(texts[order[1]]) \o ConcatInOrder(texts, Tail(order))

ReadDoneOK(e) ==
    IF poisoned \/ ioerr THEN
        \* after an over-long line or an I/O error only the error family is determined
        /\ e.res \in {"terr", "line"} /\ UNCHANGED <<rbuf, poisoned>>
    ELSE IF HasNL(rbuf) THEN
        LET ln == SubSeq(rbuf, 1, FirstNL(rbuf))
            d  == Utf8Decode(ln)
            over == e.res = "terr" /\ poisoned' = TRUE /\ UNCHANGED rbuf
            fits == /\ IF d.ok THEN (e.res = "line" /\ e.s = d.s) ELSE e.res = "terr"
                    /\ rbuf' = SubSeq(rbuf, FirstNL(rbuf) + 1, Len(rbuf)) /\ UNCHANGED poisoned
        IN  \* the limit is the stream reader's: asyncio accepts a line whose terminator sits exactly at the limit
            \* (limit + 1 bytes with the newline); that boundary belongs to the reader, not to the library - either way
            IF Len(ln) > Limit + 1 THEN over
            ELSE IF Len(ln) = Limit + 1 THEN (over \/ fits)
            ELSE fits
    ELSE IF Len(rbuf) > Limit THEN e.res = "terr" /\ poisoned' = TRUE /\ UNCHANGED rbuf
    ELSE /\ eof /\ e.res = "terr" /\ rbuf' = <<>> /\ UNCHANGED poisoned   \* the stream ended mid-line

Step ==
    /\ l <= Len(Runs[rid].events)
    /\ LET e == Ev IN
       CASE e.op = "connect" ->
              \* a (re)connection starts from a fresh stream
              /\ IF e.fault THEN (e.res = "terr" /\ UNCHANGED <<conn, rbuf, eof, ioerr, poisoned>>)
                 ELSE (e.res = "ok" /\ conn' = "connected" /\ rbuf' = <<>> /\ eof' = FALSE /\ ioerr' = FALSE /\ poisoned' = FALSE)
              /\ UNCHANGED pend
         [] e.op = "connect_hang" ->
              \* the peer never answered: the attempt is still pending after an hour, or failed as a transport error
              e.res \in {"pending", "terr"} /\ UNCHANGED <<conn, rbuf, eof, ioerr, poisoned, pend>>
         [] e.op \in {"read_unconnected", "write_unconnected"} ->
              e.res = "terr" /\ UNCHANGED <<conn, rbuf, eof, ioerr, poisoned, pend>>
         [] e.op = "feed" -> rbuf' = rbuf \o e.bytes /\ UNCHANGED <<conn, eof, ioerr, poisoned, pend>>
         [] e.op = "eof" -> eof' = TRUE /\ UNCHANGED <<conn, rbuf, ioerr, poisoned, pend>>
         [] e.op = "ioerror" -> ioerr' = TRUE /\ UNCHANGED <<conn, rbuf, eof, poisoned, pend>>
         [] e.op = "read_start" -> pend' = pend + 1 /\ UNCHANGED <<conn, rbuf, eof, ioerr, poisoned>>
         [] e.op = "read_cancelled" -> pend' = pend - 1 /\ UNCHANGED <<conn, rbuf, eof, ioerr, poisoned>>   \* gave up: no byte consumed
         [] e.op = "read_done" -> ReadDoneOK(e) /\ pend' = pend - 1 /\ UNCHANGED <<conn, eof, ioerr>>
         [] e.op = "write" ->
              /\ IF e.fault = "none" THEN (e.res = "ok" /\ e.peer = Utf8Encode(e.s)) ELSE e.res = "terr"
              /\ UNCHANGED <<conn, rbuf, eof, ioerr, poisoned, pend>>
         [] e.op = "cwrite" ->
              \* several tasks wrote concurrently under back pressure: every call succeeded and the bytes of the
              \* lines are on the stream in call order, each exactly once
              /\ \A k \in 1..Len(e.results) : e.results[k] = "ok"
              /\ e.peer = ConcatInOrder(e.texts, e.order)
              /\ UNCHANGED <<conn, rbuf, eof, ioerr, poisoned, pend>>
         [] e.op = "disconnect" ->
              e.res = "ok" /\ conn' = "closed" /\ UNCHANGED <<rbuf, eof, ioerr, poisoned, pend>>
         [] e.op = "end" ->
              \* no read may still be waiting although a line, the end of the stream or an error is there
              /\ (pend > 0 /\ ~poisoned) => ~(HasNL(rbuf) \/ eof \/ ioerr \/ Len(rbuf) > Limit)
              /\ UNCHANGED <<conn, rbuf, eof, ioerr, poisoned, pend>>
         [] OTHER -> FALSE                                   \* an event the reference has no rule for (e.g. a hook that failed)
    /\ l' = l + 1 /\ rid' = rid

Init == /\ rid \in 1..Len(Runs) /\ l = 1 /\ conn = "new" /\ rbuf = <<>> /\ eof = FALSE /\ ioerr = FALSE
        /\ poisoned = FALSE /\ pend = 0
Spec == Init /\ [][Step]_tvars
Accepted == (l = Len(Runs[rid].events) + 1) => PrintT(<<"ACCEPT", rid>>)
Stuck    == (l <= Len(Runs[rid].events) /\ ~ENABLED Step) => PrintT(<<"REJECT", rid, l>>)
=============================================================================
