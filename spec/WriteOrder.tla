----------------------------- MODULE WriteOrder -----------------------------
(***************************************************************************)
(* C17, "each write puts exactly the bytes of the given line on the stream *)
(* in call order", when several tasks write while the peer applies back    *)
(* pressure.  Implementation-shaped, at the granularity of the event loop: *)
(* a task created now starts when the loop reaches it (first in, first     *)
(* out); a writer whose drain() has to wait is parked and, when the peer   *)
(* resumes, woken through the same queue - behind tasks that were already  *)
(* waiting to start.                                                       *)
(*   Mode = "write_first" : hand the bytes over, then wait for drain (the  *)
(*                          library)                                       *)
(*        = "drain_first" : wait for drain, then hand the bytes over (a    *)
(*                          plausible rewrite; a later call overtakes)     *)
(* TLC checks InOrder on every schedule and emits each complete one for    *)
(* replay on the real transports (harness/stream.py, op "cwrite").         *)
(***************************************************************************)
EXTENDS Integers, Sequences, FiniteSets, TLC, Json

CONSTANTS Writers, Mode

VARIABLES pc,       \* writer -> "new" | "created" | "parked" | "woken" | "done"
          ready,    \* the loop's queue: writers whose next step is due, first in first out
          parked,   \* writers waiting in drain, in the order they parked
          paused,   \* the peer applies back pressure
          wire,     \* writers whose bytes are on the stream, in order
          calls,    \* writers in the order their write() call began
          hist
vars == <<pc, ready, parked, paused, wire, calls, hist>>

Init == /\ pc = [w \in Writers |-> "new"] /\ ready = <<>> /\ parked = <<>> /\ paused = FALSE
        /\ wire = <<>> /\ calls = <<>> /\ hist = <<>>

(* the application creates a task that calls write(); calls begin in creation order *)
Create(w) == /\ pc[w] = "new" /\ \A v \in Writers : v < w => pc[v] # "new"       \* (symmetry: in index order)
             /\ pc' = [pc EXCEPT ![w] = "created"]
             /\ ready' = Append(ready, w) /\ calls' = Append(calls, w)
             /\ hist' = Append(hist, <<"create", w>>)
             /\ UNCHANGED <<parked, paused, wire>>
Pause  == /\ ~paused /\ paused' = TRUE /\ hist' = Append(hist, <<"pause">>)
          /\ UNCHANGED <<pc, ready, parked, wire, calls>>
Resume == /\ paused /\ paused' = FALSE
          /\ ready' = ready \o parked /\ parked' = <<>>
          /\ pc' = [w \in Writers |-> IF pc[w] = "parked" THEN "woken" ELSE pc[w]]
          /\ hist' = Append(hist, <<"resume">>)
          /\ UNCHANGED <<wire, calls>>

(* one iteration of the loop: every writer in the queue takes its step, in order *)
RECURSIVE RunQueue(_, _, _, _)
RunQueue(q, p, pk, wr) ==
    IF q = <<>> THEN [pc |-> p, parked |-> pk, wire |-> wr]
    ELSE LET w == Head(q) IN
         IF p[w] = "created" THEN
             IF Mode = "write_first"
             THEN IF paused THEN RunQueue(Tail(q), [p EXCEPT ![w] = "parked"], Append(pk, w), Append(wr, w))
                  ELSE RunQueue(Tail(q), [p EXCEPT ![w] = "done"], pk, Append(wr, w))
             ELSE IF paused THEN RunQueue(Tail(q), [p EXCEPT ![w] = "parked"], Append(pk, w), wr)
                  ELSE RunQueue(Tail(q), [p EXCEPT ![w] = "done"], pk, Append(wr, w))
         ELSE \* woken
             IF Mode = "write_first" THEN RunQueue(Tail(q), [p EXCEPT ![w] = "done"], pk, wr)
             ELSE RunQueue(Tail(q), [p EXCEPT ![w] = "done"], pk, Append(wr, w))
RunAll == /\ ready # <<>>
          /\ LET r == RunQueue(ready, pc, parked, wire) IN
             pc' = r.pc /\ parked' = r.parked /\ wire' = r.wire
          /\ ready' = <<>> /\ hist' = Append(hist, <<"run">>)
          /\ UNCHANGED <<paused, calls>>

Next == (\E w \in Writers : Create(w)) \/ Pause \/ Resume \/ RunAll
Spec == Init /\ [][Next]_vars
FairSpec == Spec /\ WF_vars(RunAll) /\ WF_vars(Resume) /\ \A w \in Writers : WF_vars(Create(w))

AllDone == \A w \in Writers : pc[w] = "done"
(* C17: the lines are on the stream in call order, each exactly once *)
InOrder == AllDone => wire = calls
NeverTwice == \A i, j \in 1..Len(wire) : wire[i] = wire[j] => i = j
Completes == <>AllDone

EmitSchedule == (AllDone' /\ ~AllDone) => PrintT(<<"WSCHEDULE", ToJson(hist')>>)
=============================================================================
