------------------------------- MODULE IdAlloc -------------------------------
(* C11 for an unbounded number of requests and presentations: the inductive    *)
(* invariant IndInv is preserved by every step, and implies that no id is      *)
(* handed out twice and every id handed out is registered.  Checked with       *)
(* Apalache (Init => IndInv, IndInv /\ Next => IndInv').                       *)
EXTENDS Integers, FiniteSets, Apalache

CONSTANT
    \* @type: Int;
    MaxNodeId

VARIABLES
    \* @type: Set(Int);
    nodes,
    \* @type: Set(Int);
    handed,
    \* @type: Int;
    last

ConstInit == MaxNodeId = 254

Init == nodes \in SUBSET (0..255) /\ handed = {} /\ last = 0

Present(n) == nodes' = nodes \union {n} /\ UNCHANGED <<handed, last>>
Allocate(id) == /\ id \in (1..MaxNodeId) \ nodes
                /\ nodes' = nodes \union {id} /\ handed' = handed \union {id} /\ last' = id
Next == (\E n \in 0..255 : Present(n)) \/ (\E id \in 1..MaxNodeId : Allocate(id))

IndInv == /\ nodes \subseteq 0..255 /\ handed \subseteq nodes /\ handed \subseteq 1..MaxNodeId
          /\ (last = 0 \/ last \in handed)
IndInit == nodes = Gen(8) /\ handed = Gen(8) /\ last = Gen(1) /\ IndInv

(* the property: an id handed out in this step was not registered before *)
Fresh == handed' \ handed \subseteq (1..MaxNodeId) \ nodes
=============================================================================
