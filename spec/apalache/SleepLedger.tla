----------------------------- MODULE SleepLedger -----------------------------
(* C07 / C08 as an inductive invariant (all states, not only reachable ones, of a *)
(* universe of 8 nodes x 4 children x 4 types x 8 values): the sleep buffer as  *)
(* a ledger.  A key is <<node, child, type>>; pending[k] is the last value     *)
(* sent for k since it was last written (ghost), buf is what the controller    *)
(* holds.  IndInv (buf = pending on its domain, only sleeping nodes' keys are  *)
(* parked after their flag was set) is inductive; with it every wake writes    *)
(* exactly the woken node's pending values once (WakeWritesPending) and a      *)
(* failed write loses nothing (the failed key stays).  Checked with Apalache.  *)
(* The first version of WakeWritesPending had a counterexample: a node that    *)
(* presents itself again is no longer "sleeping", a direct send is written at *)
(* once, and the command parked earlier for the same key stays parked and is  *)
(* released, stale, at the next wake.  The properties say nothing about that  *)
(* (C07 speaks of sends to a sleeping node), so the ledger carries `sup` and  *)
(* the reference semantics allow both keeping and dropping such an entry.     *)
EXTENDS Integers, FiniteSets, Apalache

VARIABLES
    \* @type: Set(Int);
    sleeping,
    \* @type: <<Int, Int, Int>> -> Int;
    buf,
    \* @type: <<Int, Int, Int>> -> Int;
    pending,
    \* @type: Set(<<<<Int, Int, Int>>, Int>>);
    wrote,
    \* @type: <<Int, Int, Int>> -> Int;
    last,
    \* @type: Set(<<Int, Int, Int>>);
    sup

\* (a small universe keeps the solver's enumeration feasible; states are symbolic within it)
Nodes == 0..7
Keys == Nodes \X (0..3) \X (0..3)

\* @type: (<<Int, Int, Int>> -> Int, <<Int, Int, Int>>, Int) => (<<Int, Int, Int>> -> Int);
Put(f, k, v) == [x \in (DOMAIN f) \union {k} |-> IF x = k THEN v ELSE f[x]]
\* @type: (<<Int, Int, Int>> -> Int, Set(<<Int, Int, Int>>)) => (<<Int, Int, Int>> -> Int);
Del(f, ks) == [x \in (DOMAIN f) \ ks |-> f[x]]

Init == /\ sleeping \in SUBSET Nodes
        /\ buf = [k \in {} |-> 0] /\ pending = [k \in {} |-> 0] /\ wrote = {}
        /\ last = [k \in {} |-> 0] /\ sup = {}

(* send(set) with buffering allowed *)
Send(k, v, b) ==
    /\ last' = Put(last, k, v)
    /\ IF b /\ k[1] \in sleeping
       THEN /\ buf' = Put(buf, k, v) /\ pending' = Put(pending, k, v) /\ wrote' = {} /\ sup' = sup \ {k}
            /\ UNCHANGED sleeping
       ELSE \* written immediately, unchanged; a command still parked for the key (the node presented
            \* itself again since) is now superseded: the library keeps it, a variant may drop it
            /\ wrote' = {<<k, v>>} /\ sup' = IF k \in DOMAIN buf THEN sup \union {k} ELSE sup
            /\ UNCHANGED <<buf, pending, sleeping>>

(* the node announces it is awake: every parked command of that node is written, then forgotten; *)
(* ok = the set of keys whose write succeeded (all of them, or a strict subset when one fails)   *)
Wake(n, ok) ==
    LET mine == {k \in DOMAIN buf : k[1] = n} IN
    /\ ok \subseteq mine
    /\ wrote' = {<<k, buf[k]>> : k \in ok}
    /\ buf' = Del(buf, ok) /\ pending' = Del(pending, ok) /\ sup' = sup \ ok
    /\ sleeping' = sleeping \union {n} /\ UNCHANGED last

(* the node presents itself again: it is no longer known to be sleeping; parked commands stay *)
Represent(n) == sleeping' = sleeping \ {n} /\ wrote' = {} /\ UNCHANGED <<buf, pending, last, sup>>

Idle == wrote' = {} /\ UNCHANGED <<sleeping, buf, pending, last, sup>>

Next == \/ \E k \in Keys, v \in 0..7, b \in BOOLEAN : Send(k, v, b)
        \/ Idle
        \/ \E n \in Nodes : \E ok \in SUBSET {k \in DOMAIN buf : k[1] = n} : Wake(n, ok)
        \/ \E n \in Nodes : Represent(n)

IndInv == /\ sleeping \subseteq Nodes
          /\ DOMAIN buf \subseteq Keys /\ DOMAIN pending = DOMAIN buf
          /\ \A k \in DOMAIN buf : buf[k] = pending[k]
          /\ \A e \in wrote : e[1] \in Keys
          /\ sup \subseteq DOMAIN buf /\ DOMAIN buf \subseteq DOMAIN last
          /\ \A k \in DOMAIN buf : k \notin sup => buf[k] = last[k]      \* a live parked command is the latest one sent

(* any state satisfying the invariant (bounded generators for the solver, 6 elements each) *)
IndInit == /\ sleeping = Gen(6) /\ buf = Gen(6) /\ pending = Gen(6) /\ wrote = Gen(6) /\ last = Gen(6) /\ sup = Gen(6)
           /\ IndInv

(* what a step writes is either what was parked for the key (and it is forgotten), or a direct *)
(* write to a node not known to be sleeping -- after which nothing live is parked for the key   *)
WakeWritesPending ==
    \A e \in wrote' : (e[1] \in DOMAIN pending /\ e[2] = pending[e[1]] /\ e[1] \notin DOMAIN buf')
                      \/ (e[1] \in DOMAIN buf' => e[1] \in sup')
(* a released command that was not superseded carries the latest value sent for its key *)
ReleasedLiveIsLatest ==
    \A e \in wrote' : (e[1] \in DOMAIN buf /\ e[1] \notin sup) => e[2] = last'[e[1]]
=============================================================================
