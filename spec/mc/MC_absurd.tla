------------------------------ MODULE MC_absurd ------------------------------
(* Focus C03: malformed lines and absurd payloads (battery, heartbeat,        *)
(* version) in every controller-state class, each followed by ordinary        *)
(* traffic that must be served normally.                                      *)
EXTENDS MySensors
Reg == (1 :> NodeC("2.0", FALSE, (0 :> ChildV(6, EmptyFn))))
Alpha == <<
  Recv_(1, 255, 3, 0, Pabc), Recv_(1, 255, 3, 0, PEmpty), Recv_(1, 255, 3, 0, Pnan), Recv_(1, 255, 3, 0, Pinf),
  Recv_(1, 255, 3, 0, P1e400), Recv_(1, 255, 3, 0, P150), Recv_(1, 255, 3, 0, Pm3), Recv_(1, 255, 3, 0, P76),
  Recv_(1, 255, 3, 0, P100), Recv_(1, 255, 3, 0, P0), Recv_(2, 255, 3, 0, Pabc),
  Recv_(1, 255, 3, 22, Px), Recv_(1, 255, 3, 22, PEmpty), Recv_(1, 255, 3, 22, P1111), Recv_(2, 255, 3, 22, Px),
  Recv_(0, 255, 3, 2, Pgarbage), Recv_(0, 255, 3, 2, PEmpty), Recv_(0, 255, 0, 18, Pgarbage), Recv_(0, 255, 0, 18, PEmpty),
  Recv_(1, 255, 3, 99, PEmpty), Recv_(1, 255, 4, 77, PEmpty), Recv_(1, 255, 3, 32, Px),
  Recv_(1, 255, 3, -1, PEmpty), Recv_(0, 255, 3, -15, PEmpty), Recv_(1, 255, 4, -1, PEmpty),   \* negative type numbers exist in no protocol
  Bad_("short"), Bad_("empty"), Bad_("overrange"), Bad_("alpha"), Bad_("crossfield"), Bad_("float"),
  Recv_(1, 0, 1, 0, Pa), Recv_(1, 0, 2, 0, PEmpty), Recv_(2, 0, 1, 0, Pa)
>>
Inits == << St(Reg, NoVer, "1.4", TRUE), St(Reg, "1.4", "1.4", TRUE), St(Reg, "1.5", "1.5", TRUE),
            St(Reg, "2.0", "2.0", TRUE), St(Reg, "2.1", "2.1", TRUE), St(Reg, "2.2", "2.2", TRUE),
            St(EmptyFn, NoVer, "1.4", TRUE),
            St((1 :> NodeC("2.0", TRUE, (0 :> ChildV(6, EmptyFn)))), "2.2", "2.2", TRUE) >>
=============================================================================
