SPECIFICATION Spec
CONSTANTS
  Alphabet <- Alpha
  InitStates <- Inits
  MaxNodeId = 4
  MaxDepth = 30
VIEW View
ACTION_CONSTRAINT Emit
INVARIANT TypeOK
INVARIANT ProtoAgrees
INVARIANT SelectIsNewestNotNewer
INVARIANT OutcomeIsLibrary
PROPERTY ErrorsPreserveRegistry
PROPERTY ErrorNamesTheMissingThing
PROPERTY NodesNeverRemoved
PROPERTY RegistryStepIsTheReport
PROPERTY TypeGate
PROPERTY OnlySpecifiedReactions
PROPERTY ReactionAddressedToAsker
PROPERTY ReactionsNeverParked
PROPERTY NoQueryOnceKnown
PROPERTY ParkedNotWritten
PROPERTY AwakeWrittenUnchanged
PROPERTY WakeReleasesExactlyThatNode
PROPERTY FlushFaultLosesNothing
PROPERTY PresRequestRule
PROPERTY PresentationRearms
PROPERTY NoRequestBefore20
PROPERTY IdsFreshInRangeDistinct
PROPERTY TooManyOnlyWhenFull
PROPERTY SendTrichotomy
PROPERTY HeldIsReleasedAtWake
CHECK_DEADLOCK FALSE
