-------------------------------- MODULE MC_all --------------------------------
(* The unfocused configuration: every feature interacting.  Too large for      *)
(* exhaustive search beyond a small depth; used with `tlc -simulate` (random    *)
(* deep behaviours, all formulas checked along them, each behaviour replayed    *)
(* on the real code) in the thorough tier.                                      *)
EXTENDS MySensors
Kids == (0 :> ChildV(6, Vals1(0, "stored"))) @@ (1 :> ChildV(6, EmptyFn))
Reg == (1 :> NodeC("2.0", FALSE, Kids)) @@ (2 :> NodeC("2.0", TRUE, Kids))
Alpha == <<
  Recv_(1, 255, 0, 17, P20), Recv_(2, 255, 0, 17, P21), Recv_(3, 255, 0, 17, PEmpty), Recv_(0, 255, 0, 18, P22),
  Recv_(1, 0, 0, 6, Pa), Recv_(1, 1, 0, 7, Pb), Recv_(2, 0, 0, 6, Pa), Recv_(3, 0, 0, 99, Pa),
  Recv_(1, 0, 1, 0, Pa), Recv_(1, 0, 1, 0, Pb), Recv_(1, 1, 1, 1, Pa), Recv_(2, 0, 1, 0, Pa), Recv_(2, 1, 1, 0, Pb), Recv_(3, 0, 1, 0, Pa),
  Recv_(1, 0, 2, 0, PEmpty), Recv_(2, 0, 2, 0, PEmpty), Recv_(2, 1, 2, 0, PEmpty), Recv_(3, 0, 2, 0, PEmpty),
  Recv_(1, 255, 3, 0, P57), Recv_(2, 255, 3, 0, P76), Recv_(1, 255, 3, 0, Pabc), Recv_(3, 255, 3, 0, P57),
  Recv_(1, 255, 3, 1, PEmpty), Recv_(2, 255, 3, 6, PEmpty), Recv_(255, 255, 3, 3, PEmpty), Recv_(255, 7, 3, 3, PEmpty),
  Recv_(1, 255, 3, 11, Pa), Recv_(2, 255, 3, 12, Pb), Recv_(0, 255, 3, 14, PEmpty), Recv_(0, 255, 3, 9, Pa),
  Recv_(0, 255, 3, 2, P20), Recv_(0, 255, 3, 2, P220), Recv_(0, 255, 3, 2, P15), Recv_(0, 255, 3, 2, Pgarbage),
  Recv_(1, 255, 3, 22, P1), Recv_(2, 255, 3, 22, P1111), Recv_(3, 255, 3, 22, P1), Recv_(2, 255, 3, 22, Px),
  Recv_(1, 255, 3, 32, PEmpty), Recv_(2, 255, 3, 32, PEmpty), Recv_(3, 255, 3, 32, PEmpty),
  Recv_(1, 255, 3, 21, PEmpty), Recv_(1, 255, 3, 18, PEmpty), Recv_(1, 255, 3, 29, PEmpty), Recv_(1, 255, 3, 40, PEmpty),
  Recv_(1, 255, 4, 0, PEmpty), Recv_(3, 255, 4, 5, PEmpty), Recv_(1, 255, 4, 9, PEmpty),
  RecvF(2, 255, 3, 22, P1, "rel", 1), RecvF(2, 255, 3, 32, PEmpty, "rel", 2), RecvF(3, 0, 1, 0, Pa, "pres", 0),
  Send_(2, 0, 1, 0, Pa, TRUE), Send_(2, 0, 1, 0, Pb, TRUE), Send_(2, 1, 1, 1, Pa, TRUE), SendA(2, 1, 1, 0, Pb, TRUE), Send_(2, 0, 1, 0, Pa, FALSE),
  Send_(1, 0, 1, 0, Pa, TRUE), Send_(3, 0, 1, 0, Pa, TRUE), Send_(2, 255, 3, 13, PEmpty, TRUE), Send_(2, 0, 2, 0, PEmpty, TRUE), Send_(1, 255, 4, 1, Pa, TRUE),
  SendF(1, 0, 1, 0, Pa, TRUE),
  Reboot_(1), Reboot_(2), Cycle_, Bad_("short"), Bad_("alpha"), Junk_("str")
>>
Inits == << St(Reg, NoVer, "1.4", TRUE), St(Reg, "1.5", "1.5", FALSE), St(Reg, "2.0", "2.0", TRUE), St(Reg, "2.1", "2.1", TRUE),
            St(Reg, "2.2", "2.2", TRUE), St(EmptyFn, "2.2", "2.2", TRUE) >>
=============================================================================
