SPECIFICATION Spec
CONSTANT Terminators <- TermQuick
INVARIANT LawReEncode
INVARIANT LawAcceptIffWellFormed
INVARIANT EmitCase
CHECK_DEADLOCK FALSE
