--------------------------- MODULE MC_codec_lines ---------------------------
(* C02 generator: lines with 0-8 fields; every combination of valid field    *)
(* classes (all cross-field interactions), every invalid class at every      *)
(* position against a small valid context, short lines, line terminators.    *)
(* TLC computes the expected verdict of each and prints it for the harness.  *)
EXTENDS Codec, Json
CONSTANT Terminators     \* set of terminator sequences appended to each line
VARIABLE case

\* valid classes
VNode  == { <<48>>, <<49>>, <<50,53,53>> }                       \* 0 1 255
VChild == { <<48>>, <<50,53,52>>, <<50,53,53>> }                 \* 0 254 255
VCmd   == { <<48>>, <<49>>, <<50>>, <<51>>, <<52>> }
VAck   == { <<48>>, <<49>> }
VType  == { <<48>>, <<51>>, <<52>>, <<49,55>>, <<45,53>>, <<49,48,48,48,48,48,48,48,48,48,48,48,48,48,48,48,48,48,48,48,48>> }
Tails  == { <<>>, <<97>>, <<97,59,98>>, <<59>> }                 \* "", a, a;b, ;
\* small valid context for the invalid classes
CNode == { <<49>> }  CChild == { <<48>>, <<50,53,53>> }  CCmd == { <<49>>, <<51>> }  CAck == { <<48>> }  CType == { <<48>>, <<51>> }
Huge == [i \in 1..4400 |-> 57]      \* longer than CPython's default limit for int(str)
\* invalid / gray classes: one past the range, negative, huge, alphabetic, empty, float form, padded, signed, leading zero
Bad == { <<50,53,54>>, <<45,49>>, <<57,57,57,57,57,57,57,57,57,57,57>>, <<97>>, <<>>, <<49,46,48>>,
         <<32,49>>, <<43,49>>, <<48,48,55>>, <<49,101,51>>, <<49,95,49>>, <<53>>, <<50>>, <<45,48>>,
         <<178>>, <<1635>>, Huge,
         <<32,50,53,53>>, <<43,50,53,53>>, <<48,50,53,53>>, <<50,53,53,32>> }   \* padded / signed / zero-led spellings of 255       \* superscript two, an Arabic-Indic digit, a 4400-digit number
BadType == { <<97>>, <<>>, <<49,46,48>>, <<49,101,51>>, <<48,53>>, <<32,51>>, <<45>>, <<178>>, Huge }

Five == (VNode \X VChild \X VCmd \X VAck \X VType)
        \cup (Bad \X CChild \X CCmd \X CAck \X CType)
        \cup (CNode \X Bad \X CCmd \X CAck \X CType)
        \cup (CNode \X CChild \X Bad \X CAck \X CType)
        \cup (CNode \X CChild \X CCmd \X Bad \X CType)
        \cup (CNode \X CChild \X CCmd \X CAck \X BadType)
Full == {Join(<<f[1], f[2], f[3], f[4], f[5], t>>, SEMI) : f \in Five, t \in Tails}
\* truncated lines: the first k fields of a valid line, k = 0..5, with and without a trailing ';'
Short == UNION {{Join(SubSeq(<<f[1], f[2], f[3], f[4], f[5]>>, 1, k), SEMI),
                 Join(SubSeq(<<f[1], f[2], f[3], f[4], f[5]>>, 1, k), SEMI) \o <<SEMI>>} :
                   f \in (CNode \X CChild \X CCmd \X CAck \X CType), k \in 0..5}
Odd == { <<105,110,118,97,108,105,100>>, <<59,59,59,59,59>>, <<59,59,59,59,59,59,59>>, <<32>>, <<>> }
Lines == {l \o t : l \in Full \cup Short \cup Odd, t \in Terminators}

TermQuick == { <<10>> }
TermAll == { <<>>, <<10>>, <<13,10>>, <<32,10>> }

Init == case \in Lines
Next == UNCHANGED case
Spec == Init /\ [][Next]_case

LawReEncode == ReEncode(case)
(* accepted iff well-formed: two formulations against each other *)
LawAcceptIffWellFormed ==
    LET d == Decode(case) IN
    d.k = "msg" => (WellFormedMsg([d EXCEPT !.p = <<>>]) /\ Decode(Encode(d)) = d)
EmitCase == PrintT(<<"CASE", ToJson([line |-> case, expect |-> Decode(case)])>>)
=============================================================================
