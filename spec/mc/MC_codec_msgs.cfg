SPECIFICATION Spec
CONSTANT PLen = 2
INVARIANT LawRoundTrip
INVARIANT LawOneLine
INVARIANT LawReEncode
INVARIANT EmitCase
CHECK_DEADLOCK FALSE
