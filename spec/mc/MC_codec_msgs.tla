--------------------------- MODULE MC_codec_msgs ---------------------------
(* C01 generator: every message over boundary ids x commands x ack x types  *)
(* allowed by the cross-field rules x all payloads of length <= PLen over   *)
(* {a, ';', ' ', '0', RS, NUL} without trailing blank.  TLC checks the laws on each  *)
(* and prints it with its encoding for the harness.                         *)
EXTENDS Codec, Json
CONSTANT PLen
VARIABLE case

Nodes == {0, 9, 10, 99, 100, 254, 255}
Childs == {0, 1, 254, 255}
Types == { <<48>>, <<51>>, <<52>>, <<57>>, <<49,55>>, <<52,57>>, <<45,53>>,
           <<49,48,48,48,48,48,48,48,48,48,48,48,48,48,48,48,48,48,48,48,48>> }   \* 0 3 4 9 17 49 -5 10^20
Chars == {97, 59, 32, 48, 30, 0}
Payloads == UNION {[1..k -> Chars] : k \in 0..PLen}
Msgs == {m \in [n : Nodes, c : Childs, cmd : 0..4, ack : {0, 1}, t : Types, p : Payloads] : WellFormedMsg(m)}

Init == case \in Msgs
Next == UNCHANGED case
Spec == Init /\ [][Next]_case

LawRoundTrip == RoundTrip(case)
LawOneLine   == OneLine(case)
LawReEncode  == ReEncode(Encode(case))
EmitCase == PrintT(<<"CASE", ToJson([msg |-> case, line |-> Encode(case)])>>)
=============================================================================
