SPECIFICATION ISpec
CONSTANTS
  Alphabet <- Alpha
  InitStates <- Inits
  MaxNodeId = 6
  MaxDepth = 4
VIEW IView
INVARIANT RuleInv
PROPERTY Refines
PROPERTY RuleStepProps
CHECK_DEADLOCK FALSE
