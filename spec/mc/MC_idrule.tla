------------------------------ MODULE MC_idrule ------------------------------
(* Refinement: within the id focus (MC_ids), every step of the controller      *)
(* reference is a step of the id rule proved without bounds in                 *)
(* spec/proofs/IdAllocProof.tla (TLAPS) for spec/IdRule.tla.                   *)
(* `handed` / `lastId` are ghosts: the ids answered so far, the latest one.    *)
EXTENDS MC_ids

VARIABLES handed, lastId
ivars == <<st, obs, hist, handed, lastId>>

Answered(o) == o.ev.k = "recv" /\ o.ev.cmd = C_INTERNAL /\ o.ev.t = I_ID_REQUEST /\ o.out.k = "yield"
NewId       == CHOOSE id \in DOMAIN st'.nodes : id \notin DOMAIN st.nodes
INext == /\ Next
         /\ IF Answered(obs')
            THEN handed' = handed \cup {NewId} /\ lastId' = NewId
            ELSE UNCHANGED <<handed, lastId>>
IInit == Init /\ handed = {} /\ lastId = 0
ISpec == IInit /\ [][INext]_ivars
IView == <<st, handed, lastId>>

R == INSTANCE IdRule WITH nodes <- DOMAIN st.nodes, handed <- handed, last <- lastId

RuleStep == \/ \E n \in 0..255 : R!Present(n)
            \/ \E id \in 1..MaxNodeId : R!Allocate(id)
Refines  == [][RuleStep \/ UNCHANGED R!vars]_ivars
RuleInv  == R!IndInv
RuleStepProps == [][R!Fresh /\ R!Monotone]_ivars
=============================================================================
