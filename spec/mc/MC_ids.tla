------------------------------- MODULE MC_ids -------------------------------
(* Focus C11 with MaxNodeId = 6: every registry shape (empty, dense, sparse,  *)
(* containing 0 / the maximum / the broadcast id, full) and sequences of id   *)
(* requests interleaved with presentations.  The harness embeds the abstract  *)
(* ids 0..6 order-preservingly into 0..254 (4,5,6 -> 252,253,254).            *)
EXTENDS MySensors
Dom(S) == [n \in S |-> NodeC("2.0", FALSE, EmptyFn)]
Alpha == <<
  Recv_(255, 255, 3, 3, PEmpty), Recv_(255, 7, 3, 3, PEmpty), Recv_(3, 255, 3, 3, PEmpty),
  Recv_(2, 255, 0, 17, P20), Recv_(4, 255, 0, 17, P20), Recv_(6, 255, 0, 17, P20), Recv_(5, 0, 0, 6, Pa)
>>
Shapes == << {}, {0}, {0, 1, 2}, {0, 3}, {5}, {6}, 0..6, 1..6, {255}, {0, 6}, 0..5, {1, 2, 3, 4, 5} >>
Inits == [i \in 1..Len(Shapes) |-> St(Dom(Shapes[i]), "1.4", "1.4", TRUE)]
         \o [i \in 1..Len(Shapes) |-> St(Dom(Shapes[i]), "2.0", "2.0", TRUE)]
         \o << St(EmptyFn, NoVer, "1.4", TRUE) >>
=============================================================================
