SPECIFICATION LSpec
CONSTANTS
  Alphabet <- Alpha
  InitStates <- Inits
  MaxNodeId = 4
  MaxDepth = 4
VIEW LView
INVARIANT LedgerInv
PROPERTY Refines
PROPERTY LedgerStepProps
CHECK_DEADLOCK FALSE
