------------------------------ MODULE MC_ledger ------------------------------
(* Refinement: within the sleep-buffer focus (MC_sleepbuf: alphabet, initial   *)
(* states), every step of the controller reference (MySensorsCore, the module  *)
(* the real code is validated against) is a step of the sleep ledger whose     *)
(* invariant and step properties are proved for any number of nodes, keys and  *)
(* steps in spec/proofs/SleepLedgerProof.tla (TLAPS) for spec/Ledger.tla.  Chain of arguments:     *)
(*   code  <- trace validation ->  MySensorsCore  <- this check (TLC) ->       *)
(*   Ledger!Spec  <- TLAPS ->  IndInv, ReleasedLiveIsLatest, ...     *)
(* `last` is a ghost: the latest value accepted by send() per key.             *)
EXTENDS MC_sleepbuf

VARIABLE last
lvars == <<st, obs, hist, last>>

SetVal(m)   == <<m.ack, m.p>>
SendsSet(o) == o.ev.k = "send" /\ o.ev.cmd = C_SET /\ o.out = Done
LNext == /\ Next
         /\ last' = IF SendsSet(obs') THEN Upd(last, KeyOf(MsgOf(obs'.ev)), SetVal(MsgOf(obs'.ev))) ELSE last
LInit == Init /\ last = EmptyFn
LSpec == LInit /\ [][LNext]_lvars
LView == <<st, last>>

(* the refinement mapping *)
MSleeping == {n \in DOMAIN st.nodes : st.nodes[n].sl}
MBuf      == [k \in DOMAIN st.setbuf |-> <<st.setbuf[k].ack, st.setbuf[k].p>>]
MSup      == {k \in DOMAIN st.setbuf : st.setbuf[k].sup}
ToSet_(q) == {q[i] : i \in 1..Len(q)}
MWrote    == {<<KeyOf(m), SetVal(m)>> : m \in {x \in obs.rel : x.cmd = C_SET}}
             \cup (IF obs.ev.k = "send" THEN {<<KeyOf(m), SetVal(m)>> : m \in {x \in ToSet_(obs.react) : x.cmd = C_SET}} ELSE {})
FirstOf(k) == k[1]

L == INSTANCE Ledger WITH
        Nodes <- 0..255, Keys <- (0..255) \X (0..255) \X (0..255), Vals <- {0, 1} \X STRING,
        NodeOf <- FirstOf,
        sleeping <- MSleeping, buf <- MBuf, last <- last, sup <- MSup, wrote <- MWrote

(* the ledger step each reference step maps to (named by the event, so that nothing is enumerated) *)
LedgerStep ==
    LET ev == obs'.ev
        m  == MsgOf(ev)
    IN  \/ ev.k = "send" /\ ev.cmd = C_SET /\ L!Send(KeyOf(m), SetVal(m), ev.buf)
        \/ ev.k = "recv" /\ \E ok \in SUBSET (DOMAIN MBuf) : L!Wake(ev.n, ok, (DOMAIN MBuf) \ ((DOMAIN MBuf') \cup ok))
        \/ ev.k = "recv" /\ L!Represent(ev.n)
        \/ L!Idle
Refines == [][LedgerStep]_lvars
(* and the proved facts, evaluated on the mapped state as a cross-check of the mapping itself *)
LedgerInv == L!IndInv
LedgerStepProps == [][L!ReleasedLiveIsLatest /\ L!WrittenIsForgotten /\ L!NothingLost]_lvars
=============================================================================
