SPECIFICATION Spec
CONSTANTS
  StopMode = "event"
  GuardConnect = TRUE
  MaxMut = 1
  MaxTicks = 1
VIEW View
INVARIANT ExitSavesFinalRegistry
INVARIANT ExitDisconnects
INVARIANT NoTaskLeft
INVARIANT ExceptionIsTheBodys
INVARIANT FailedConnectPropagates
INVARIANT Cadence
ACTION_CONSTRAINT EmitSchedule
CHECK_DEADLOCK FALSE
