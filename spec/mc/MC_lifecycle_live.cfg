SPECIFICATION FairSpec
CONSTANTS
  StopMode = "event"
  GuardConnect = TRUE
  MaxMut = 0
  MaxTicks = 1
PROPERTY Terminates
CHECK_DEADLOCK FALSE
