SPECIFICATION Spec
CONSTANTS
  Prefixes <- Pfx
  Deliveries <- Dels
  WriteMsgs <- WM
  MaxDeliveries = 2
  MaxReads = 2
  MaxWrites = 1
  WithFaults = TRUE
VIEW View
INVARIANT Fifo
INVARIANT SubscriptionsCoverInTopics
INVARIANT EchoRoundTrip
ACTION_CONSTRAINT Emit
CHECK_DEADLOCK FALSE
