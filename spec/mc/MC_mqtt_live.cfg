SPECIFICATION FairSpec
CONSTANTS
  Prefixes <- Pfx
  Deliveries <- Dels
  WriteMsgs <- WM
  MaxDeliveries = 2
  MaxReads = 2
  MaxWrites = 1
  WithFaults = FALSE
PROPERTY NeverDeaf
CHECK_DEADLOCK FALSE
