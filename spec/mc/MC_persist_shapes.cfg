SPECIFICATION Spec
INVARIANT DenoteTotal
INVARIANT BaseFilesValid
INVARIANT EmitCase
CHECK_DEADLOCK FALSE
