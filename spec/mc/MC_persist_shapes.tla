-------------------------- MODULE MC_persist_shapes --------------------------
(* C14 generator: the mutation grammar over a valid file.  Every sub-value    *)
(* of a valid two-node file (native and legacy layout) is replaced by every   *)
(* JSON value class, every member is removed, an unknown member is added at   *)
(* every object, and the top level is replaced by every non-object class.     *)
(* TLC prints each mutant with the registry it denotes (if it is of the       *)
(* exact layout) for the harness to load through the real code.               *)
EXTENDS Persist, Json
VARIABLE case

O(pairs) == JObj(pairs)
M(key, val) == <<key, val, -1, FALSE>>
MI(key, val, n) == <<key, val, n, TRUE>>

Child1 == O(<< M("child_id", JInt(1)), M("child_type", JInt(38)), M("description", JStr("d")),
               M("values", O(<< MI("49", JStr("a;b"), 49), MI("2", JStr("1"), 2) >>)) >>)
Node1 == O(<< M("node_id", JInt(1)), M("node_type", JInt(17)), M("protocol_version", JStr("2.3.2")),
              M("children", O(<< MI("1", Child1, 1) >>)), M("sketch_name", JStr("GPS")), M("sketch_version", JStr("1.0")),
              M("battery_level", JInt(57)), M("heartbeat", JInt(1111)), M("sleeping", JBool(TRUE)) >>)
Node0 == O(<< M("node_id", JInt(0)), M("node_type", JInt(18)), M("protocol_version", JStr("2.2.0")),
              M("children", O(<< >>)), M("sketch_name", JStr("")), M("sketch_version", JStr("")),
              M("battery_level", JInt(0)), M("heartbeat", JInt(0)), M("sleeping", JBool(FALSE)) >>)
Native == O(<< MI("0", Node0, 0), MI("1", Node1, 1) >>)

LChild1 == O(<< M("id", JInt(1)), M("type", JInt(38)), M("description", JStr("")),
                M("values", O(<< MI("49", JStr("x"), 49) >>)) >>)
LNode1 == O(<< M("sensor_id", JInt(1)), M("children", O(<< MI("1", LChild1, 1) >>)), M("type", JInt(17)),
               M("sketch_name", JStr("GPS")), M("sketch_version", JNull), M("battery_level", JInt(0)),
               M("protocol_version", JStr("2.3.2")), M("heartbeat", JInt(0)) >>)
LNode0 == O(<< M("sensor_id", JInt(0)), M("children", O(<< >>)), M("type", JNull), M("sketch_name", JNull),
               M("sketch_version", JNull), M("battery_level", JInt(0)), M("protocol_version", JStr("2.2.0")),
               M("heartbeat", JInt(0)) >>)
Legacy == O(<< MI("0", LNode0, 0), MI("1", LNode1, 1) >>)

Classes == { JNull, JBool(TRUE), JBool(FALSE), JInt(0), JInt(-1), JInt(5), JInt(100), JInt(101), JInt(255), JInt(256),
             JInt(300), JNum, JStr(""), JStr("x"), JStr("5"), JStr("sensor_id"), JStr("id type"), JStr("node_id"),
             JArr(<< >>), JArr(<< JInt(1) >>), O(<< >>), O(<< M("a", JInt(1)) >>), O(<< MI("7", JStr("v"), 7) >>) }

(* all single-point mutants of a JSON value *)
RECURSIVE Mutants(_)
Mutants(x) ==
    Classes
    \cup (IF x.j = "obj"
          THEN \* mutate one member's value
               UNION {{ [x EXCEPT !.v[i] = <<x.v[i][1], y, x.v[i][3], x.v[i][4]>>] : y \in Mutants(x.v[i][2]) } : i \in 1..Len(x.v)}
               \* remove one member
               \cup { [x EXCEPT !.v = SubSeq(x.v, 1, i-1) \o SubSeq(x.v, i+1, Len(x.v))] : i \in 1..Len(x.v) }
               \* add an unknown member; rename a key to a non-numeric / other numeric one
               \cup { [x EXCEPT !.v = Append(x.v, M("bogus", JInt(1)))] }
               \cup { [x EXCEPT !.v[i] = <<"x", x.v[i][2], -1, FALSE>>] : i \in 1..Len(x.v) }
               \cup { [x EXCEPT !.v[i] = <<"77", x.v[i][2], 77, TRUE>>] : i \in 1..Len(x.v) }
          ELSE {})

Cases == {Native, Legacy} \cup Mutants(Native) \cup Mutants(Legacy)
Init == case \in Cases
Next == UNCHANGED case
Spec == Init /\ [][Next]_case

(* the denotations are total and never both succeed with different registries *)
DenoteTotal == /\ Denote(case).ok \in BOOLEAN /\ DenoteLegacy(case).ok \in BOOLEAN
               /\ (Denote(case).ok /\ DenoteLegacy(case).ok) => Denote(case).reg = DenoteLegacy(case).reg
BaseFilesValid == Denote(Native).ok /\ DenoteLegacy(Legacy).ok /\ ~Denote(Legacy).ok /\ ~DenoteLegacy(Native).ok
EmitCase == PrintT(<<"CASE", ToJson(case)>>)
=============================================================================
