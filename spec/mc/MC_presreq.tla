----------------------------- MODULE MC_presreq -----------------------------
(* Focus C10: every message kind that can hit a missing node or child, from a *)
(* known node (child 1 missing), a known node without children and an unknown *)
(* node; presentations; write faults on the request; all five protocols.      *)
EXTENDS MySensors
Reg == (1 :> NodeC("2.0", FALSE, (0 :> ChildV(6, EmptyFn)))) @@ (2 :> NodeC("2.0", FALSE, EmptyFn))
Alpha == <<
  Recv_(1, 1, 1, 0, Pa), Recv_(1, 1, 2, 0, PEmpty), Recv_(2, 0, 1, 0, Pa), Recv_(2, 0, 2, 0, PEmpty),
  Recv_(3, 0, 0, 6, Pa), Recv_(3, 0, 1, 0, Pa), Recv_(3, 0, 2, 0, PEmpty), Recv_(3, 255, 4, 0, PEmpty),
  Recv_(3, 255, 3, 0, P57), Recv_(3, 255, 3, 11, Pa), Recv_(3, 255, 3, 12, Pa), Recv_(3, 255, 3, 21, PEmpty),
  Recv_(3, 255, 3, 22, P1), Recv_(3, 255, 3, 22, Px), Recv_(3, 255, 3, 32, PEmpty), Recv_(4, 0, 1, 0, Pa),
  Recv_(1, 0, 1, 0, Pa),                                                         \* a message that succeeds
  Recv_(255, 255, 3, 3, PEmpty),                                                 \* an id is handed out (then that node reports a child)
  Recv_(1, 255, 3, 22, P1), Recv_(1, 255, 3, 32, PEmpty),                        \* the known node wakes inside an episode
  Recv_(0, 255, 3, 2, P21), Recv_(0, 255, 0, 18, P21),                           \* a version report inside an episode
  Recv_(3, 255, 0, 17, P20), Recv_(1, 255, 0, 17, P20), Recv_(2, 255, 0, 17, P20), Recv_(4, 255, 0, 17, P20),
  Recv_(1, 1, 0, 6, Pa), Recv_(2, 0, 0, 6, Pa),                                  \* child presentations
  RecvF(3, 0, 1, 0, Pa, "pres", 0), RecvF(1, 1, 1, 0, Pa, "pres", 0), RecvF(3, 255, 3, 0, P57, "pres", 0),
  Send_(3, 255, 3, 19, PEmpty, TRUE), Send_(1, 255, 3, 19, PEmpty, TRUE),        \* the application asks for a presentation itself
  Cycle_
>>
Inits == << St(Reg, "2.0", "2.0", TRUE), St(Reg, "2.1", "2.1", TRUE), St(Reg, "2.2", "2.2", TRUE),
            St(Reg, "1.4", "1.4", TRUE), St(Reg, "1.5", "1.5", TRUE) >>
=============================================================================
