SPECIFICATION PSpec
CONSTANTS
  Alphabet <- Alpha
  InitStates <- Inits
  MaxNodeId = 4
  MaxDepth = 4
VIEW PView
INVARIANT RuleInv
PROPERTY Refines
PROPERTY RuleStepProps
CHECK_DEADLOCK FALSE
