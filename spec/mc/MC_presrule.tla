----------------------------- MODULE MC_presrule -----------------------------
(* Refinement: within the C10 focus (MC_presreq), every step of the controller *)
(* reference is a step of the presentation-request rule proved without bounds  *)
(* in spec/proofs/PresRuleProof.tla (TLAPS) for spec/PresRule.tla.             *)
(* `cnt` is a ghost: successful requests per node since its last presentation. *)
EXTENDS MC_presreq

VARIABLE cnt
pvars == <<st, obs, hist, cnt>>
PNodes == 0..255

ReqOk(o)   == o.pres # <<>> /\ o.presOk
Closed     == st.asked \ st'.asked            \* episodes closed by this step (a node presentation)
PNext == /\ Next
         /\ cnt' = [n \in PNodes |-> IF n \in Closed THEN 0
                                     ELSE IF ReqOk(obs') /\ obs'.pres[1].n = n THEN cnt[n] + 1
                                     ELSE IF obs'.ev.k = "recv" /\ obs'.ev.cmd = C_PRESENTATION /\ obs'.ev.c = SysChild
                                             /\ obs'.ev.n = n /\ n \notin st'.asked THEN 0
                                     ELSE cnt[n]]
PInit == Init /\ cnt = [n \in PNodes |-> 0]
PSpec == PInit /\ [][PNext]_pvars
PView == <<st, cnt>>

MWrote == {obs.pres[i].n : i \in 1..Len(obs.pres)}
R == INSTANCE PresRule WITH Nodes <- PNodes, asked <- st.asked, cnt <- cnt, wrote <- MWrote, wok <- (obs.pres # <<>> /\ obs.presOk)

RuleStep == LET n == obs'.ev.n IN
            \/ \E ok \in BOOLEAN : R!Reject(n, ok)
            \/ R!Present(n)
            \/ R!Idle
Refines  == [][RuleStep]_pvars
RuleInv  == R!IndInv
RuleStepProps == [][R!AtMostOne /\ R!FailedDoesNotCount /\ R!Independent]_pvars
=============================================================================
