SPECIFICATION Spec
CONSTANTS
  Keys <- K3
  Senders <- S2
  PopMode = "identity"
  MaxSends = 1
  DirectSenders <- D0
  Faults = TRUE
INVARIANT NoLostUpdate
INVARIANT OnlySentValues
INVARIANT NoMoreOftenThanSent
ACTION_CONSTRAINT EmitSchedule
CHECK_DEADLOCK FALSE
