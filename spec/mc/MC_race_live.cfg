SPECIFICATION FairSpec
CONSTANTS
  Keys <- K2
  Senders <- S2
  PopMode = "identity"
  MaxSends = 1
  DirectSenders <- D1
  Faults = FALSE
PROPERTY Terminates
CHECK_DEADLOCK FALSE
