---------------------------- MODULE MC_reactions ----------------------------
(* Focus C06: every message kind (all internal types of the newest protocol,  *)
(* not only the reacting ones) in every state class: version known/unknown,   *)
(* stored value present/absent, reboot flag, metric/imperial, sleeping asker. *)
EXTENDS MySensors
Reg == (1 :> NodeC("2.0", FALSE, (0 :> ChildV(6, Vals1(0, "a"))) @@ (1 :> ChildV(6, Vals1(0, "")))))
       @@ (2 :> NodeC("2.0", TRUE, (0 :> ChildV(6, Vals1(0, "b")))))
AllInternal == [t \in 1..34 |-> Recv_(IF t - 1 \in {2, 14, 9} THEN 0 ELSE 1, 255, 3, t - 1, P1)]
Alpha == AllInternal \o <<
  Recv_(2, 255, 3, 6, PEmpty), Recv_(2, 255, 3, 1, PEmpty), Recv_(2, 7, 3, 3, PEmpty),   \* sleeping asker
  Recv_(3, 255, 3, 0, P57),                                      \* battery from an unknown node
  Recv_(1, 0, 2, 0, PEmpty), Recv_(1, 0, 2, 1, PEmpty), Recv_(1, 1, 2, 0, PEmpty), Recv_(2, 0, 2, 0, PEmpty),
  Recv_(3, 0, 2, 0, PEmpty),
  Recv_(1, 0, 1, 0, Pb), Recv_(1, 0, 1, 1, Pa), Recv_(2, 0, 1, 0, Pa), Recv_(1, 5, 1, 0, Pa),
  Reboot_(1), Reboot_(2),
  Recv_(0, 255, 0, 18, P22), Recv_(0, 255, 0, 18, Pgarbage), Recv_(0, 255, 3, 2, P20), Recv_(0, 255, 3, 2, Pgarbage),
  Recv_(1, 255, 0, 17, P20), Recv_(1, 1, 0, 6, Pa),
  Recv_(1, 255, 4, 0, PEmpty), Recv_(3, 255, 4, 0, PEmpty), Recv_(1, 255, 4, 9, PEmpty),
  Recv_(255, 7, 3, 4, P1), Recv_(1, 0, 3, 3, PEmpty),      \* id response / request carrying another child id
  Bad_("short")
>>
Inits == << St(Reg, NoVer, "1.4", TRUE), St(Reg, "1.4", "1.4", FALSE), St(Reg, "1.5", "1.5", TRUE),
            St(Reg, "2.0", "2.0", TRUE), St(Reg, "2.0", "2.0", FALSE), St(Reg, "2.1", "2.1", TRUE),
            St(Reg, "2.2", "2.2", TRUE), St(EmptyFn, NoVer, "1.4", TRUE) >>
=============================================================================
