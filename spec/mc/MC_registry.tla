----------------------------- MODULE MC_registry -----------------------------
(* Focus C04 (also feeds C03, C13): presentations, re-presentations, sets,    *)
(* reports and references to unknown nodes/children over 2 nodes x 2 children *)
(* x 2 value types x 2 payloads, under each of the five protocols.            *)
EXTENDS MySensors
Alpha == <<
  Recv_(1, 255, 0, 17, P20), Recv_(2, 255, 0, 18, P22), Recv_(2, 255, 0, 17, PEmpty),   \* node presentations (one without a version)
  Recv_(1, 0, 0, 6, Pa), Recv_(1, 1, 0, 6, Pa), Recv_(2, 0, 0, 6, Pa),      \* child presentations
  Recv_(1, 0, 0, 7, Pb),                                                    \* re-presentation, other type
  Recv_(1, 1, 0, 99, Pa), Recv_(2, 1, 0, -1, Pb),                            \* sensor types newer / other than any table
  Recv_(1, 0, 1, 0, Pa), Recv_(1, 0, 1, 0, Pb), Recv_(1, 0, 1, 1, Pa), Recv_(1, 1, 1, 0, Pa),
  Recv_(1, 1, 1, 1, Pb), Recv_(2, 0, 1, 0, Pa), Recv_(2, 1, 1, 0, Pa),      \* sets
  Recv_(1, 0, 2, 0, PEmpty), Recv_(1, 1, 2, 1, PEmpty),                     \* reqs
  Recv_(1, 255, 3, 0, P57), Recv_(2, 255, 3, 0, P76),                       \* battery
  Recv_(1, 255, 3, 11, Pa), Recv_(1, 255, 3, 11, Pb), Recv_(1, 255, 3, 12, Pa), Recv_(2, 255, 3, 12, Pb),
  Recv_(1, 255, 3, 22, P1111), Recv_(1, 255, 3, 32, PEmpty),                \* heartbeat, pre-sleep
  Recv_(255, 255, 3, 3, PEmpty),                                            \* id request
  [Recv_(2, 255, 0, 17, P20) EXCEPT !.ack = 1], [Recv_(1, 0, 1, 0, Pb) EXCEPT !.ack = 1],
  [Recv_(1, 0, 0, 6, Pb) EXCEPT !.ack = 1]                                   \* the same reports with the ack flag set
>>
Inits == << St(EmptyFn, "1.4", "1.4", TRUE), St(EmptyFn, "1.5", "1.5", TRUE), St(EmptyFn, "2.0", "2.0", TRUE),
            St(EmptyFn, "2.1", "2.1", TRUE), St(EmptyFn, "2.2", "2.2", TRUE) >>
=============================================================================
