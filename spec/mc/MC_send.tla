------------------------------- MODULE MC_send -------------------------------
(* Focus C12: all five commands x buffering flag x destination unknown /      *)
(* awake / sleeping, followed by wakes of the sleeping destination; junk.     *)
EXTENDS MySensors
Kids == (0 :> ChildV(6, Vals1(0, "a")))      \* the node last reported "a": a command carrying "a" is still a command
Reg == (1 :> NodeC("2.0", FALSE, Kids)) @@ (2 :> NodeC("2.0", TRUE, Kids))
Dest == <<1, 2, 3>>
Sends(b) == [i \in 1..3 |-> Send_(Dest[i], 255, 0, 17, P20, b)]
         \o [i \in 1..3 |-> Send_(Dest[i], 0, 1, 0, Pa, b)]
         \o [i \in 1..3 |-> Send_(Dest[i], 0, 2, 0, PEmpty, b)]
         \o [i \in 1..3 |-> Send_(Dest[i], 255, 3, 13, PEmpty, b)]
         \o [i \in 1..3 |-> Send_(Dest[i], 255, 3, 18, PEmpty, b)]
         \o [i \in 1..3 |-> Send_(Dest[i], 255, 4, 1, Pa, b)]
Alpha == Sends(TRUE) \o Sends(FALSE) \o <<
  SendA(2, 0, 1, 0, Pb, TRUE), Send_(255, 255, 3, 20, PEmpty, TRUE), Send_(2, 0, 1, 1, Pb, TRUE),
  SendF(1, 255, 3, 13, PEmpty, TRUE), SendF(1, 0, 1, 0, Pa, TRUE),
  Recv_(2, 255, 3, 22, P1), Recv_(2, 255, 3, 32, PEmpty), Recv_(1, 255, 3, 22, P1), Recv_(2, 255, 3, 0, P57),
  Recv_(2, 255, 0, 17, P20),                                           \* the sleeping node presents itself again
  RecvF(2, 255, 3, 22, P1, "rel", 1), RecvF(2, 255, 3, 32, PEmpty, "rel", 1),   \* a write fault while releasing
  Junk_("str"), Junk_("none"), Junk_("int"), Junk_("object"), Junk_("dictmissing"),
  Cycle_
>>
Inits == << St(Reg, "1.4", "1.4", TRUE), St(Reg, "1.5", "1.5", TRUE), St(Reg, "2.0", "2.0", TRUE),
            St(Reg, "2.1", "2.1", TRUE), St(Reg, "2.2", "2.2", TRUE) >>
=============================================================================
