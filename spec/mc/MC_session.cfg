SPECIFICATION Spec
CONSTANTS
  Alphabet <- Alpha
  InitStates <- Inits
  MaxNodeId = 4
  MaxDepth = 3
VIEW View
PROPERTY EndedIsFinal
PROPERTY EndsOnlyOnFatal
ACTION_CONSTRAINT Emit
CHECK_DEADLOCK FALSE
