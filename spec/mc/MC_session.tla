------------------------------ MODULE MC_session ------------------------------
EXTENDS Session
P(str, codes) == [p |-> str, pc |-> codes]
PEmpty == P("", <<>>)   Pa == P("a", <<97>>)   P57 == P("57", <<53,55>>)   Pabc == P("abc", <<97,98,99>>)   P20 == P("2.0", <<50,46,48>>)
R(n, c, cmd, t, pl) == [k |-> "recv", n |-> n, c |-> c, cmd |-> cmd, ack |-> 0, t |-> t, p |-> pl.p, pc |-> pl.pc,
                        buf |-> FALSE, fault |-> "", fk |-> 0]
Bad == [R(0, 0, 0, 0, P("short", <<>>)) EXCEPT !.k = "recvbad"]
Alpha == << R(1, 255, 0, 17, P20), R(1, 0, 0, 6, Pa), R(1, 0, 1, 0, Pa), R(2, 0, 1, 0, Pa), R(1, 1, 1, 0, Pa),
            R(1, 255, 3, 99, PEmpty), R(1, 255, 3, 0, P57), R(1, 255, 3, 0, Pabc), R(255, 255, 3, 3, PEmpty), Bad >>
St0(p) == [nodes |-> EmptyFn, ver |-> p, proto |-> p, metric |-> TRUE, setbuf |-> EmptyFn, asked |-> {}, held |-> EmptyFn]
Inits == << St0("1.4"), St0("2.0"), St0("2.2") >>
=============================================================================
