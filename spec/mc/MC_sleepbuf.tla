----------------------------- MODULE MC_sleepbuf -----------------------------
(* Focus C07 / C08: sends (both flags) interleaved with wake, non-wake and    *)
(* re-presentation messages over 2 sleeping nodes + 1 awake node, 2 children, *)
(* 2 value types, 2 values; write faults at every position of a flush.        *)
EXTENDS MySensors
Kids == (0 :> ChildV(6, Vals1(0, "stored"))) @@ (1 :> ChildV(6, EmptyFn))
Reg == (1 :> NodeC("2.0", TRUE, Kids)) @@ (2 :> NodeC("2.0", TRUE, Kids)) @@ (3 :> NodeC("2.0", FALSE, Kids))
Alpha == <<
  Send_(1, 0, 1, 0, Pa, TRUE), Send_(1, 0, 1, 0, Pb, TRUE), Send_(1, 0, 1, 1, Pa, TRUE), Send_(1, 1, 1, 0, Pa, TRUE),
  Send_(1, 1, 1, 1, Pb, TRUE), SendA(1, 1, 1, 0, Pb, TRUE),
  Send_(1, 0, 1, 19, Pa, TRUE),                                        \* value type 19 = the number of the internal presentation type
  Send_(2, 0, 1, 0, Pa, TRUE), Send_(2, 0, 1, 0, Pb, TRUE), Send_(2, 1, 1, 0, Pa, TRUE),
  Send_(1, 0, 1, 0, Pa, FALSE), Send_(3, 0, 1, 0, Pa, TRUE), Send_(4, 0, 1, 0, Pa, TRUE),
  Recv_(1, 255, 3, 22, P1), Recv_(2, 255, 3, 22, P1), Recv_(3, 255, 3, 22, P1),
  Recv_(1, 255, 3, 32, PEmpty), Recv_(2, 255, 3, 32, PEmpty),
  Recv_(1, 255, 3, 0, P57), Recv_(1, 0, 1, 0, Pa), Recv_(1, 0, 2, 0, PEmpty), Recv_(1, 255, 0, 17, P20), Recv_(1, 0, 0, 6, Pa),
  RecvF(1, 255, 3, 22, P1, "rel", 1), RecvF(1, 255, 3, 22, P1, "rel", 2), RecvF(1, 255, 3, 22, P1, "rel", 3),
  RecvF(1, 255, 3, 32, PEmpty, "rel", 1), RecvF(1, 255, 3, 32, PEmpty, "rel", 2), RecvF(1, 255, 3, 32, PEmpty, "rel", 3),
  RecvF(2, 255, 3, 22, P1, "rel", 1), RecvF(2, 255, 3, 32, PEmpty, "rel", 1),
  Recv_(0, 255, 3, 14, PEmpty),                                        \* the gateway restarts (gateway ready) while commands are parked
  Recv_(0, 255, 3, 2, P22),                                            \* the gateway reports (another) version while commands are parked
  Cycle_
>>
Inits == << St(Reg, "2.0", "2.0", TRUE), St(Reg, "2.1", "2.1", TRUE), St(Reg, "2.2", "2.2", TRUE),
            St(Reg, "1.5", "1.5", TRUE) >>
=============================================================================
