SPECIFICATION Spec
CONSTANTS
  Alphabet <- Alpha
  InitRegs <- Regs
  Pairs <- AllPairs
  MaxNodeId = 4
  MaxDepth = 3
VIEW View
INVARIANT VersionStable
INVARIANT HiddenStateAlsoAgrees
CHECK_DEADLOCK FALSE
