------------------------------ MODULE MC_stable ------------------------------
EXTENDS Stable
P(str, codes) == [p |-> str, pc |-> codes]
PEmpty == P("", <<>>)
Pa == P("a", <<97>>)   Pb == P("b", <<98>>)   P57 == P("57", <<53,55>>)   P1 == P("1", <<49>>)
P20 == P("2.0", <<50,46,48>>)   Pabc == P("abc", <<97,98,99>>)
R(n, c, cmd, t, pl) == [k |-> "recv", n |-> n, c |-> c, cmd |-> cmd, ack |-> 0, t |-> t, p |-> pl.p, pc |-> pl.pc,
                        buf |-> FALSE, fault |-> "", fk |-> 0]
S(n, c, cmd, t, pl, b) == [R(n, c, cmd, t, pl) EXCEPT !.k = "send", !.buf = b]
Alpha == <<
  R(1, 255, 0, 17, P20), R(3, 255, 0, 17, PEmpty), R(1, 0, 0, 6, Pa), R(1, 0, 1, 0, Pa), R(1, 0, 1, 1, Pb), R(1, 0, 2, 0, PEmpty), R(1, 1, 2, 0, PEmpty),
  R(2, 0, 1, 0, Pa), R(3, 0, 1, 0, Pa),
  R(1, 255, 3, 0, P57), R(1, 255, 3, 0, Pabc), R(1, 255, 3, 1, PEmpty), R(1, 255, 3, 6, PEmpty), R(255, 255, 3, 3, PEmpty), R(255, 7, 3, 4, P1), R(255, 7, 3, 3, PEmpty),
  R(1, 255, 3, 11, Pa), R(1, 255, 3, 12, Pa), R(0, 255, 3, 14, PEmpty), R(0, 255, 3, 9, Pa),
  R(1, 255, 3, 16, PEmpty), R(1, 255, 3, 18, PEmpty), R(1, 255, 3, 21, PEmpty), R(2, 255, 3, 22, P1), R(3, 255, 3, 22, P1), R(3, 255, 3, 22, Pabc), R(2, 255, 3, 22, Pabc),
  R(2, 255, 3, 32, PEmpty), R(1, 255, 4, 0, PEmpty), R(1, 255, 4, 9, PEmpty),
  S(2, 0, 1, 0, Pa, TRUE), S(2, 0, 1, 0, Pb, TRUE), S(1, 0, 1, 0, Pa, TRUE), S(2, 255, 3, 13, PEmpty, TRUE), S(3, 0, 2, 0, PEmpty, FALSE),
  [R(1, 0, 0, 0, PEmpty) EXCEPT !.k = "reboot"]
>>
Node(sl, ch) == [type |-> 17, ver |-> "2.0", bat |-> 0, sn |-> "", sv |-> "", hb |-> 0, sl |-> sl, rb |-> FALSE, ch |-> ch]
Kid == [type |-> 6, desc |-> "", vals |-> EmptyFn]
Regs == { EmptyFn, (1 :> Node(FALSE, (0 :> Kid))) @@ (2 :> Node(TRUE, (0 :> Kid))) }
AllPairs == { <<"1.4", "1.5">>, <<"2.0", "2.1">>, <<"2.0", "2.2">>, <<"2.1", "2.2">>,
              <<"1.4", "2.0">>, <<"1.5", "2.0">>, <<"1.5", "2.2">>, <<"1.4", "2.2">>, <<"1.5", "2.1">> }
=============================================================================
