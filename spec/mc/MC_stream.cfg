SPECIFICATION Spec
CONSTANTS
  Streams <- Streams3
  WriteLines <- NoWL
  MaxReads = 4
  MaxWrites = 0
  MaxConnects = 1
  WithFaults = FALSE
VIEW View
INVARIANT ChunkingIndependent
INVARIANT NoLineBeforeItArrived
ACTION_CONSTRAINT Emit
CHECK_DEADLOCK FALSE
