------------------------------ MODULE MC_stream ------------------------------
EXTENDS Stream
\* NL, 'a', ';', CR, an invalid byte, and the two bytes of U+00E9
Bytes7 == {10, 97, 59, 13, 255, 195, 169}
Seqs(n) == UNION {[1..k -> Bytes7] : k \in 0..n}
Streams3 == Seqs(3)
Streams4 == Seqs(4)
Streams5 == Seqs(5)
LifeStreams == { <<97, 10>>, <<>> }
WL == { <<49, 59, 10>>, <<233, 10>> }       \* "1;\n", "e-acute\n"
NoWL == {}
=============================================================================
