SPECIFICATION Spec
CONSTANTS
  Streams <- LifeStreams
  WriteLines <- WL
  MaxReads = 2
  MaxWrites = 2
  MaxConnects = 2
  WithFaults = TRUE
VIEW View
INVARIANT PeerGetsExactBytes
ACTION_CONSTRAINT Emit
CHECK_DEADLOCK FALSE
