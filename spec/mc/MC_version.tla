----------------------------- MODULE MC_version -----------------------------
(* Focus C05: version reports (version reply and gateway presentation, valid  *)
(* and rejected) in all orders among other traffic that probes the type gate. *)
EXTENDS MySensors
Alpha == <<
  Recv_(0, 255, 3, 2, P14), Recv_(0, 255, 3, 2, P15), Recv_(0, 255, 3, 2, P20), Recv_(0, 255, 3, 2, P200),
  Recv_(0, 255, 3, 2, P211), Recv_(0, 255, 3, 2, P220), Recv_(0, 255, 3, 2, P232), Recv_(0, 255, 3, 2, P141),
  Recv_(0, 255, 3, 2, P150v), Recv_(0, 255, 3, 2, P09), Recv_(0, 255, 3, 2, P30),
  Recv_(0, 255, 3, 2, Pgarbage), Recv_(0, 255, 3, 2, PEmpty),
  Recv_(0, 255, 0, 18, P220), Recv_(0, 255, 0, 18, P21), Recv_(0, 255, 0, 18, Pgarbage),
  Recv_(1, 255, 0, 17, P20),
  Recv_(1, 255, 3, 16, PEmpty), Recv_(1, 255, 3, 22, P1), Recv_(1, 255, 3, 32, PEmpty), Recv_(1, 255, 3, 14, PEmpty),
  Recv_(1, 255, 4, 5, PEmpty), Recv_(1, 255, 4, 6, PEmpty),
  Sibling_(P150v), Sibling_(P220),                 \* another Gateway object in the process learns 1.5.0 / 2.2.0
  Cycle_
>>
\* second initial state: the gateway's own node restored from persistence, version not yet reported
Inits == << St(EmptyFn, NoVer, "1.4", TRUE), St((0 :> NodeC("2.2.0", FALSE, EmptyFn)), NoVer, "1.4", TRUE) >>
=============================================================================
