SPECIFICATION Spec
CONSTANTS
  Writers <- W3
  Mode = "write_first"
CONSTRAINT FewToggles
INVARIANT InOrder
INVARIANT NeverTwice
ACTION_CONSTRAINT EmitSchedule
CHECK_DEADLOCK FALSE
