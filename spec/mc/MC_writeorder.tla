--------------------------- MODULE MC_writeorder ---------------------------
EXTENDS WriteOrder
W3 == {1, 2, 3}
(* bounded pausing: at most three pause / resume pairs per schedule *)
FewToggles == Cardinality({i \in 1..Len(hist) : hist[i][1] = "pause"}) <= 2
=============================================================================
