SPECIFICATION FairSpec
CONSTANTS
  Writers <- W3
  Mode = "write_first"
CONSTRAINT FewToggles
PROPERTY Completes
CHECK_DEADLOCK FALSE
