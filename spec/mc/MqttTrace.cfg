SPECIFICATION TSpec
INVARIANT Accepted
INVARIANT Stuck
CHECK_DEADLOCK FALSE
