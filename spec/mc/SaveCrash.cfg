SPECIFICATION Spec
INVARIANT EmitCrash
CHECK_DEADLOCK FALSE
