SPECIFICATION TSpec
CONSTANT MaxNodeId = 254
INVARIANT Verdict
CHECK_DEADLOCK FALSE
