SPECIFICATION Spec
CONSTANT MaxNodeId = 254
INVARIANT Accepted
INVARIANT Stuck
CHECK_DEADLOCK FALSE
