SPECIFICATION Spec
INVARIANT Accepted
INVARIANT Stuck
CHECK_DEADLOCK FALSE
