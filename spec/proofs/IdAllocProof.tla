---------------------------- MODULE IdAllocProof ----------------------------
(* TLAPS proofs about spec/IdRule.tla. *)
EXTENDS IdRule, TLAPS

THEOREM InitInv == Init => IndInv
  BY DEF Init, IndInv

THEOREM NextInv == IndInv /\ [Next]_vars => IndInv'
  <1> SUFFICES ASSUME IndInv, [Next]_vars PROVE IndInv'
    OBVIOUS
  <1>1. CASE \E n \in 0..255 : Present(n)
    BY <1>1 DEF Present, IndInv
  <1>2. CASE \E id \in 1..MaxNodeId : Allocate(id)
    BY <1>2, MaxAssumption DEF Allocate, IndInv
  <1>3. CASE UNCHANGED vars
    BY <1>3 DEF vars, IndInv
  <1> QED
    BY <1>1, <1>2, <1>3 DEF Next

THEOREM Safety == Spec => []IndInv
  BY InitInv, NextInv, PTL DEF Spec

THEOREM StepFresh == IndInv /\ [Next]_vars => Fresh /\ Monotone
  <1> SUFFICES ASSUME IndInv, [Next]_vars PROVE Fresh /\ Monotone
    OBVIOUS
  <1>1. CASE \E n \in 0..255 : Present(n)
    BY <1>1 DEF Present, Fresh, Monotone
  <1>2. CASE \E id \in 1..MaxNodeId : Allocate(id)
    BY <1>2 DEF Allocate, Fresh, Monotone
  <1>3. CASE UNCHANGED vars
    BY <1>3 DEF vars, Fresh, Monotone
  <1> QED
    BY <1>1, <1>2, <1>3 DEF Next

(* an id already handed out is never handed out again: it is registered, so Allocate is not enabled for it *)
THEOREM NoReuse == IndInv => \A id \in handed : ~ (id \in (1..MaxNodeId) \ nodes)
  BY DEF IndInv
=============================================================================
