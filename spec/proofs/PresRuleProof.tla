---------------------------- MODULE PresRuleProof ----------------------------
(* TLAPS proofs about spec/PresRule.tla. *)
EXTENDS PresRule, TLAPS

THEOREM InitInv == Init => IndInv
  BY DEF Init, IndInv

THEOREM NextInv == IndInv /\ [Next]_vars => IndInv'
  <1> SUFFICES ASSUME IndInv, [Next]_vars PROVE IndInv'
    OBVIOUS
  <1>1. ASSUME NEW n \in Nodes, NEW ok \in BOOLEAN, Reject(n, ok) PROVE IndInv'
    <2>1. CASE n \in asked
      BY <1>1, <2>1 DEF Reject, IndInv
    <2>2. CASE n \notin asked /\ ok
      BY <1>1, <2>2 DEF Reject, IndInv
    <2>3. CASE n \notin asked /\ ~ok
      BY <1>1, <2>3 DEF Reject, IndInv
    <2> QED BY <2>1, <2>2, <2>3
  <1>2. ASSUME NEW n \in Nodes, Present(n) PROVE IndInv'
    BY <1>2 DEF Present, IndInv
  <1>3. CASE Idle
    BY <1>3 DEF Idle, IndInv
  <1>4. CASE UNCHANGED vars
    BY <1>4 DEF vars, IndInv
  <1> QED
    BY <1>1, <1>2, <1>3, <1>4 DEF Next

THEOREM Safety == Spec => []IndInv
  BY InitInv, NextInv, PTL DEF Spec

THEOREM StepProps == IndInv /\ Next => AtMostOne /\ FailedDoesNotCount /\ Independent
  <1> SUFFICES ASSUME IndInv, Next PROVE AtMostOne /\ FailedDoesNotCount /\ Independent
    OBVIOUS
  <1>0. IndInv'
    BY NextInv DEF vars
  <1>1. ASSUME NEW n \in Nodes, NEW ok \in BOOLEAN, Reject(n, ok)
        PROVE AtMostOne /\ FailedDoesNotCount /\ Independent
    <2>1. CASE n \in asked
      BY <1>0, <1>1, <2>1 DEF Reject, IndInv, AtMostOne, FailedDoesNotCount, Independent
    <2>2. CASE n \notin asked /\ ok
      BY <1>0, <1>1, <2>2 DEF Reject, IndInv, AtMostOne, FailedDoesNotCount, Independent
    <2>3. CASE n \notin asked /\ ~ok
      BY <1>0, <1>1, <2>3 DEF Reject, IndInv, AtMostOne, FailedDoesNotCount, Independent
    <2> QED BY <2>1, <2>2, <2>3
  <1>2. ASSUME NEW n \in Nodes, Present(n) PROVE AtMostOne /\ FailedDoesNotCount /\ Independent
    BY <1>0, <1>2 DEF Present, IndInv, AtMostOne, FailedDoesNotCount, Independent
  <1>3. CASE Idle
    BY <1>0, <1>3 DEF Idle, IndInv, AtMostOne, FailedDoesNotCount, Independent
  <1> QED
    BY <1>1, <1>2, <1>3 DEF Next
=============================================================================
