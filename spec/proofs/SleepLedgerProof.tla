-------------------------- MODULE SleepLedgerProof --------------------------
(* TLAPS proofs about spec/Ledger.tla: the invariant is inductive, and every  *)
(* proper step has the three step properties - for any number of nodes, keys, *)
(* values and steps.                                                          *)
EXTENDS Ledger, TLAPS

LEMMA PutDom == \A f, k, v : DOMAIN Put(f, k, v) = (DOMAIN f) \union {k}
  BY DEF Put
LEMMA PutVal == \A f, k, v, x : x \in (DOMAIN f) \union {k} => Put(f, k, v)[x] = IF x = k THEN v ELSE f[x]
  BY DEF Put
LEMMA DelDom == \A f, ks : DOMAIN Del(f, ks) = (DOMAIN f) \ ks
  BY DEF Del
LEMMA DelVal == \A f, ks, x : x \in (DOMAIN f) \ ks => Del(f, ks)[x] = f[x]
  BY DEF Del

THEOREM InitInv == Init => IndInv
  BY DEF Init, IndInv, Empty

THEOREM NextInv == IndInv /\ [Next]_vars => IndInv'
  <1> SUFFICES ASSUME IndInv, [Next]_vars PROVE IndInv'
    OBVIOUS
  <1>1. ASSUME NEW k \in Keys, NEW v \in Vals, NEW b \in BOOLEAN, Send(k, v, b) PROVE IndInv'
    <2>1. CASE b /\ NodeOf(k) \in sleeping
      BY <1>1, <2>1, PutDom, PutVal DEF Send, IndInv
    <2>2. CASE ~(b /\ NodeOf(k) \in sleeping)
      BY <1>1, <2>2, PutDom, PutVal DEF Send, IndInv
    <2> QED BY <2>1, <2>2
  <1>2. ASSUME NEW n \in Nodes, NEW ok \in SUBSET (DOMAIN buf), NEW drop \in SUBSET (DOMAIN buf), Wake(n, ok, drop)
        PROVE IndInv'
    BY <1>2, DelDom, DelVal DEF Wake, IndInv
  <1>3. ASSUME NEW n \in Nodes, Represent(n) PROVE IndInv'
    BY <1>3 DEF Represent, IndInv
  <1>4. CASE UNCHANGED vars
    BY <1>4 DEF vars, IndInv
  <1>5. CASE Idle
    BY <1>5 DEF Idle, IndInv
  <1> QED
    BY <1>1, <1>2, <1>3, <1>4, <1>5 DEF Next

THEOREM Safety == Spec => []IndInv
  BY InitInv, NextInv, PTL DEF Spec

(* (for proper steps: in a stuttering step `wrote` still shows the previous step's writes) *)
THEOREM StepProps == IndInv /\ Next => ReleasedLiveIsLatest /\ WrittenIsForgotten /\ NothingLost
  <1> SUFFICES ASSUME IndInv, Next PROVE ReleasedLiveIsLatest /\ WrittenIsForgotten /\ NothingLost
    OBVIOUS
  <1>1. ASSUME NEW k \in Keys, NEW v \in Vals, NEW b \in BOOLEAN, Send(k, v, b)
        PROVE ReleasedLiveIsLatest /\ WrittenIsForgotten /\ NothingLost
    <2>1. CASE b /\ NodeOf(k) \in sleeping
      BY <1>1, <2>1, PutDom, PutVal DEF Send, IndInv, ReleasedLiveIsLatest, WrittenIsForgotten, NothingLost
    <2>2. CASE ~(b /\ NodeOf(k) \in sleeping)
      BY <1>1, <2>2, PutDom, PutVal DEF Send, IndInv, ReleasedLiveIsLatest, WrittenIsForgotten, NothingLost
    <2> QED BY <2>1, <2>2
  <1>2. ASSUME NEW n \in Nodes, NEW ok \in SUBSET (DOMAIN buf), NEW drop \in SUBSET (DOMAIN buf), Wake(n, ok, drop)
        PROVE ReleasedLiveIsLatest /\ WrittenIsForgotten /\ NothingLost
    BY <1>2, DelDom, DelVal DEF Wake, IndInv, ReleasedLiveIsLatest, WrittenIsForgotten, NothingLost
  <1>3. ASSUME NEW n \in Nodes, Represent(n)
        PROVE ReleasedLiveIsLatest /\ WrittenIsForgotten /\ NothingLost
    BY <1>3 DEF Represent, IndInv, ReleasedLiveIsLatest, WrittenIsForgotten, NothingLost
  <1>5. CASE Idle
    BY <1>5 DEF Idle, IndInv, ReleasedLiveIsLatest, WrittenIsForgotten, NothingLost
  <1> QED
    BY <1>1, <1>2, <1>3, <1>5 DEF Next
=============================================================================
