#!/bin/sh
# usage: runtlc.sh <MC module name> [-cfg <cfg file in spec/mc>] [extra tlc args]; copies spec to scratch and runs TLC
m=$1; shift
cfg=$m.cfg
if [ "$1" = "-cfg" ]; then cfg=$2; shift; shift; fi
d=$(mktemp -d /tmp/tlc.XXXXXX)
cp /verif/spec/*.tla /verif/spec/mc/*.tla /verif/spec/mc/*.cfg $d/
cd $d && tlc -metadir $d/meta -noGenerateSpecTE -config $cfg "$@" $m.tla 2>&1
rc=$?
rm -rf $d
exit $rc
