#!/bin/sh
# usage: runtlc.sh <MC module name> [extra tlc args]; copies spec to scratch and runs TLC
m=$1; shift
d=$(mktemp -d /tmp/tlc.XXXXXX)
cp /verif/spec/*.tla /verif/spec/mc/$m.tla /verif/spec/mc/$m.cfg $d/
cd $d && tlc -metadir $d/meta -noGenerateSpecTE -config $m.cfg "$@" $m.tla 2>&1
rc=$?
rm -rf $d
exit $rc
