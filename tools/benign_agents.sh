#!/bin/bash
# every benign variant written by the refactoring agents (benign/agents/<area>-<X>.diff) against the checks of its area
declare -A AREA=(
 [codec]="C01 C02 C03 C06 C12 C13 C14 C19"
 [schemas]="C04 C13 C14 C15 C16 C19"
 [persistence]="C13 C14 C15 C16"
 [stream]="C03 C16 C17"
 [mqtt]="C03 C06 C16 C18"
 [handlers14]="C03 C04 C05 C06 C07 C08 C09 C10 C11 C12 C19"
 [handlers2x]="C03 C04 C05 C06 C07 C08 C09 C10 C11 C12 C19"
 [gateway]="C03 C04 C05 C06 C07 C08 C09 C10 C11 C12 C16 C19"
)
for p in /verif/benign/agents/*.diff; do
  a=$(basename $p .diff); a=${a%-*}
  [ -n "$1" ] && [ "$1" != "$a" ] && continue
  /verif/tools/wt_some.sh $p "${AREA[$a]}" 3
done
