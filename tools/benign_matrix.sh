#!/bin/bash
# Every benign variant (behaviour changes the properties leave open) must keep its relevant checks green.
declare -A REL=(
 [B01-lowest-free-id]="C11 C04 C06 C03 C19"
 [B02-flush-reversed]="C07 C08 C09 C12"
 [B03-hold-internal-for-sleeping]="C12 C06 C07 C10 C19"
 [B04-garbage-version-is-1.4]="C05 C03 C06"
 [B05-error-subclass]="C04 C03 C10"
 [B06-atomic-save]="C15 C13 C14 C16"
 [B07-yield-copy]="C04 C01 C02"
 [B08-saver-cancel-suppress]="C16"
 [B09-any-battery-level]="C13 C14 C03 C04"
 [B10-compact-json]="C13 C14 C15 C16"
 [B11-stream-unsupported-first]="C03 C04 C05 C10 C19"
 [B12-one-wildcard-subscription]="C18"
 [B13-mqtt-decode-error-class]="C18"
 [B14-save-every-10-minutes]="C16"
 [B15-sleeping-before-parse]="C03 C04 C07 C19"
 [B16-battery-half-up]="C04 C13"
 [B17-unsorted-indent4]="C13 C14 C15"
 [B18-stream-write-in-two-pieces]="C17"
 [B19-direct-send-supersedes-parked]="C07 C08 C09 C12 C19"
 [B20-send-timeout-as-transport-error]="C03 C12 C06 C08"
)
for b in "${!REL[@]}"; do
  [ -n "$1" ] && [[ "$b" != $1* ]] && continue
  /verif/tools/wt_check.sh /verif/benign/$b.diff ${REL[$b]}
done
