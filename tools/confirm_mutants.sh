#!/bin/bash
# Confirm each candidate seeded change in its scratch worktree /tmp/mut/<ID>:
# demo fails with the change, passes without, the existing suite passes with the change.
confirm() {
  id=$1; v=$2; wt=${MUTROOT:-/tmp/mut}/$id; d=$wt/out
  [ -f $d/$v.diff ] || { echo "$id-$v MISSING"; return; }
  cd $wt && git checkout -q -- . 
  PYTHONPATH=$wt/src timeout 300 /venv/bin/python $d/demo_$v.py >/dev/null 2>&1; clean=$?
  git apply $d/$v.diff || { echo "$id-$v APPLY-FAILED"; return; }
  PYTHONPATH=$wt/src timeout 300 /venv/bin/python $d/demo_$v.py >/dev/null 2>&1; mut=$?
  tests=$(PYTHONPATH=$wt/src timeout 600 /venv/bin/python -m pytest -q -p no:cacheprovider 2>&1 | grep -E "passed|failed" | tail -1)
  git checkout -q -- .
  echo "$id-$v demo_clean=$clean demo_mutant=$mut tests=[$tests]"
}
for id in "$@"; do confirm $id A; confirm $id B; done
