#!/bin/bash
# usage: final_one.sh S|B|A <name> <check> : one job of tools/final_regression.sh
kind=$1; name=$2; chk=$3
case $kind in
  S) patch=/verif/seeded/$name/patch.diff;;
  B) patch=/verif/benign/$name.diff;;
  A) patch=/verif/benign/agents/$name.diff;;
esac
/verif/tools/wt_check.sh "$patch" "$chk" | head -1 | sed "s#^[^ ]* #$kind $name #"
