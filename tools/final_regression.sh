#!/bin/bash
# One pool of jobs, P at a time (default 4): every seeded change against the check of its own property, every benign
# variant against the checks of its area.  Results: <out>/results.txt ("S|B|A <name> <check> <result> ...").
out=${1:-/tmp/w/final}; P=${2:-4}
mkdir -p "$out"; cd /verif || exit 2
{
  for d in seeded/*/; do id=$(basename "$d"); echo "S $id ${id%%-*}"; done
  grep -E '^ *\[B[0-9]+' tools/benign_matrix.sh | sed -E 's/^ *\[([^]]+)\]="([^"]+)".*/\1 \2/' | while read -r b checks; do
    for c in $checks; do echo "B $b $c"; done
  done
  declare -A AREA=([codec]="C01 C02 C03 C06 C12 C13 C14 C19" [schemas]="C04 C13 C14 C15 C16 C19" [persistence]="C13 C14 C15 C16"
                   [stream]="C03 C16 C17" [mqtt]="C03 C06 C16 C18" [handlers14]="C03 C04 C05 C06 C07 C08 C09 C10 C11 C12 C19"
                   [handlers2x]="C03 C04 C05 C06 C07 C08 C09 C10 C11 C12 C19" [gateway]="C03 C04 C05 C06 C07 C08 C09 C10 C11 C12 C16 C19")
  for p in benign/agents/*.diff; do a=$(basename "$p" .diff); for c in ${AREA[${a%-*}]}; do echo "A $a $c"; done; done
} > "$out/jobs.txt"
xargs -P "$P" -L 1 /verif/tools/final_one.sh < "$out/jobs.txt" > "$out/results.txt" 2>&1
echo done > "$out/DONE"
