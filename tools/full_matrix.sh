#!/bin/bash
# Run every seeded change against the check of its own property, each in its own scratch worktree (parallel).
cd /verif
ls -d seeded/*/ | xargs -n1 basename | xargs -P ${1:-4} -I{} sh -c 'id={}; tools/wt_check.sh /verif/seeded/$id/patch.diff ${id%%-*} | head -1 | sed "s#^[^ ]*patch.diff#$id#"'
