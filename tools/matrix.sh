#!/bin/bash
# usage: tools/matrix.sh <seeded id> <check id> [...]  : apply a seeded change to /repo, run the checks, undo.
# Prints one line per (seeded change, check): DETECTED / missed / machinery-failure.
sid=$1; shift
[ -z "$(git -C /repo status --porcelain)" ] || { echo "/repo not clean"; exit 2; }
git -C /repo apply /verif/seeded/$sid/patch.diff || exit 2
trap 'git -C /repo checkout -- .' EXIT
for chk in "$@"; do
  out=$(cd /verif && VERIF_OUT_DIR=/tmp/verif-matrix ./check $chk 2>&1); rc=$?
  case $rc in 1) r=DETECTED;; 0) r=missed;; *) r="machinery-failure($rc)";; esac
  echo "$sid $chk $r $(echo "$out" | tail -1)"
  [ $rc -ge 2 ] && echo "$out" | tail -5
done
