#!/bin/bash
# For every "fixed" entry of known_findings.json: reverse-apply that fix: commit to /repo's working tree,
# run the check of the property it repaired, undo.  The defect must be reported again.
[ -z "$(git -C /repo status --porcelain)" ] || { echo "/repo not clean"; exit 2; }
python3 - <<'PY' > /tmp/revert_list.txt
import json
seen=set()
for f in json.load(open('/verif/known_findings.json'))['fixed']:
    key=(f['commit'], f['property'])
    if key not in seen:
        seen.add(key); print(f['commit'], f['property'])
PY
# some fixes were built on top of each other: reverse the later one(s) too
group() { case $1 in 050f893) echo "1010c85 050f893";; *) echo $1;; esac; }
[ -n "$1" ] && grep "$1" /tmp/revert_list.txt > /tmp/revert_list2.txt && mv /tmp/revert_list2.txt /tmp/revert_list.txt
while read commit prop; do
  ok=1
  for c in $(group $commit); do
    git -C /repo show $c -- src | git -C /repo apply -R 2>/dev/null || ok=0
  done
  if [ $ok = 1 ]; then
    out=$(cd /verif && VERIF_OUT_DIR=/tmp/verif-matrix ./check $prop 2>&1); rc=$?
    case $rc in 1) r=DETECTED;; 0) r=missed;; *) r="machinery-failure($rc)";; esac
    echo "revert $commit $prop $r $(echo "$out" | tail -1 | cut -c1-120)"
  else
    echo "revert $commit $prop NOT-REVERSIBLE-IN-ISOLATION"
  fi
  git -C /repo reset -q --hard HEAD
done < /tmp/revert_list.txt
