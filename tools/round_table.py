#!/usr/bin/env python3
"""Markdown rows for DESIGN.md 0.5 from seeded/<id>/meta.json and a matrix file (id check result ...).
usage: tools/round_table.py <matrix file> [suffix letters, e.g. GH]  (extra cross-check lines: id check result)"""
import json, os, sys, collections
rows = collections.defaultdict(list)
for line in open(sys.argv[1]):
    parts = line.split()
    if len(parts) >= 3 and parts[0][:1] == "C" and "-" in parts[0]:
        rows[parts[0]].append((parts[1], parts[2]))
letters = sys.argv[2] if len(sys.argv) > 2 else "ABCDEFGH"
for sid in sorted(os.listdir("/verif/seeded")):
    if sid[-1] not in letters:
        continue
    m = json.load(open(f"/verif/seeded/{sid}/meta.json"))
    own = sid.split("-")[0]
    res = []
    for chk, r in rows.get(sid, []):
        res.append(f"{chk}: {'DETECTED' if r == 'VIOLATION' else 'not reported' if r == 'ok' else r}")
    print(f"| {sid} | {m.get('what','')} | {m.get('needs_to_manifest','') or '-'} | {'; '.join(res) or '?'} |")
