#!/bin/bash
# usage: tools/seed_sweep.sh <seed> ... : run every quick check under each seed (evidence redirected); prints non-zero exits
for seed in "$@"; do
  for p in C01 C02 C03 C04 C05 C06 C07 C08 C09 C10 C11 C12 C13 C14 C15 C16 C17 C18 C19; do
    out=$(VERIF_SEED=$seed VERIF_OUT_DIR=/tmp/verif-sweep-$seed ./check $p 2>&1); rc=$?
    echo "seed=$seed $p rc=$rc $(echo "$out" | tail -1 | cut -c1-110)"
    [ $rc -ne 0 ] && echo "$out" | grep -v "^Parsing\|^Semantic\|^Linting" | tail -15
  done
done
