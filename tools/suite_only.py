#!/venv/bin/python
"""For every seeded change: do the traces recorded from the repository's own tests (alone) already reject it?
usage: tools/suite_only.py [ids...]   (scratch worktree per change, removed afterwards)"""
import json, os, subprocess, sys, tempfile, shutil
sys.path.insert(0, "/verif")
ALL = {"family", "afterError", "registry", "outcome", "version", "gate", "outcomeKind", "react", "sets", "faultReported", "pres", "ids", "sendres"}
ids = sys.argv[1:] or sorted(os.listdir("/verif/seeded"))
for sid in ids:
    patch = f"/verif/seeded/{sid}/patch.diff"
    if not os.path.exists(patch):
        continue
    wt = tempfile.mkdtemp(prefix="wtsuite.", dir="/tmp"); os.rmdir(wt)
    subprocess.run(["git", "-C", "/repo", "worktree", "add", "-q", "--detach", wt, "HEAD"], check=True)
    try:
        if subprocess.run(["git", "-C", wt, "apply", patch]).returncode:
            print(sid, "does not apply"); continue
        code = f"""
import json, sys
sys.path.insert(0, "/verif"); sys.path.insert(0, "{wt}/src")
from harness import suite, tlc
doc = suite.record()
tr = [t for t in suite.as_traces(doc) if t["events"]]
res = tlc.validate([{{"init": t["init"], "events": t["events"]}} for t in tr], set({sorted(ALL)!r}), shards=4)
rej = [t["input"]["suite_test"] for t, (st, pos) in zip(tr, res["verdicts"]) if st == "reject"]
direct = [t for t in suite.as_traces(doc) if t["direct"]]
print(json.dumps({{"traces": len(tr), "rejected": len(rej), "direct": len(direct), "first": rej[:2], "pytest": doc["pytest_tail"]}}))
"""
        env = dict(os.environ, VERIF_REPO_SRC=f"{wt}/src")
        p = subprocess.run(["/venv/bin/python", "-c", code], env=env, capture_output=True, text=True, cwd="/tmp")
        print(sid, (p.stdout.strip().splitlines() or [p.stderr[-300:]])[-1], flush=True)
    finally:
        subprocess.run(["git", "-C", "/repo", "worktree", "remove", "--force", wt])
