#!/usr/bin/env python3
"""Print a markdown table of what the last run of each check covered (from evidence/*.json)."""
import glob, json, os, sys
d = sys.argv[1] if len(sys.argv) > 1 else os.path.join(os.path.dirname(os.path.dirname(os.path.abspath(__file__))), "evidence")
print("| property | tier | TLC states | TLC transitions | real executions judged | distinct non-trivial | wall s |")
print("|---|---|---|---|---|---|---|")
for f in sorted(glob.glob(os.path.join(d, "C*.json"))):
    e = json.load(open(f)); c = e["coverage"]
    print(f"| {e['property_id']} | {e['tier']} | {c.get('states', 0)} | {c.get('transitions', 0)} | {c.get('traces_validated_against_impl', 0)} | {c.get('distinct_nontrivial', 0)} | {e['wall_s']} |")
