#!/bin/bash
# every thorough check, one after the other; prints exit code and the summary line
cd "$(dirname "$0")/.."
for i in $(seq -w 1 19); do
  out=$(./check C$i --tier thorough 2>&1); rc=$?
  echo "C$i rc=$rc $(echo "$out" | grep -v KNOWN-FINDING | tail -1 | cut -c1-120)"
  [ $rc -ne 0 ] && echo "$out" | tail -15
done
