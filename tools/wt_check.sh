#!/bin/bash
# usage: tools/wt_check.sh <patch file> <check id> [...]   : run checks against a scratch worktree of /repo with the
# patch applied (never touches /repo's working tree).  Prints one line per check.
patch=$1; shift
wt=$(mktemp -d /tmp/wt.XXXXXX); rmdir $wt
git -C /repo worktree add -q --detach $wt HEAD || exit 2
trap 'git -C /repo worktree remove --force '$wt' 2>/dev/null; git -C /repo worktree prune' EXIT
git -C $wt apply $patch 2>/dev/null || git -C $wt apply -3 $patch >/dev/null 2>&1 || { echo "patch does not apply"; exit 2; }
for chk in "$@"; do
  out=$(cd /verif && VERIF_REPO_SRC=$wt/src VERIF_OUT_DIR=$wt/.verif-out ./check $chk 2>&1); rc=$?
  case $rc in 1) r=VIOLATION;; 0) r=ok;; *) r="machinery-failure($rc)";; esac
  echo "$(basename $(dirname $patch))/$(basename $patch) $chk $r $(echo "$out" | grep -v KNOWN-FINDING | tail -1 | cut -c1-100)"
  [ $rc -eq 1 ] && echo "$out" | grep -A1 "^VIOLATION" | head -4 | cut -c1-400
  [ $rc -ge 2 ] && echo "$out" | tail -5
done
