#!/bin/bash
# usage: tools/wt_some.sh <patch file> "<checks>" [parallelism] : run the given quick checks against a scratch worktree with the patch.
patch=$1; checks=$2; par=${3:-3}
wt=$(mktemp -d /tmp/wts.XXXXXX); rmdir $wt
git -C /repo worktree add -q --detach $wt HEAD || exit 2
trap 'git -C /repo worktree remove --force '$wt' 2>/dev/null; git -C /repo worktree prune' EXIT
git -C $wt apply $patch 2>/dev/null || git -C $wt apply -3 $patch >/dev/null 2>&1 || { echo "$patch: does not apply"; exit 2; }
name=$(basename $patch)
for c in $checks; do echo $c; done | xargs -P $par -I{} sh -c 'out=$(cd /verif && VERIF_REPO_SRC='$wt'/src VERIF_OUT_DIR='$wt'/.out-{} ./check {} 2>&1); rc=$?; case $rc in 1) r=VIOLATION;; 0) r=ok;; *) r="machinery-failure($rc)";; esac; echo "'$name' {} $r $(echo "$out" | grep -v KNOWN-FINDING | tail -1 | cut -c1-90)"; [ $rc -ne 0 ] && echo "$out" | grep -A1 "^VIOLATION\|MACHINERY" | head -3 | cut -c1-600'
